"""C26 - Block constraints apply per repetition; combinator constraints apply globally.

Theorems: coq/theories/Properties/C26.v (about Design/Layout.v: map_block_trial_ranges).
Correspondence (L2): for every within_block geometry occurring in the constraints of
generated Repeat / Merge / Nest programs (and None): the (start, end) ranges the real
map_block_trial_ranges visits, build_variable_lists of the first and last level of
every factor of act_design and get_trial_numbers for boundary-straddling indices, vs.
the extracted Design/Layout.v run on the flat record read from the same block.
Search (the property itself on the real code):
  * windows: the documented scope of every constraint of the program (docsem.py:
    block-level constraints apply within each repetition of their block including the
    preceding preamble trials, combinator-level constraints to the whole sequence,
    every window inside [0, T)) must equal exactly the ranges the real block iterates
    over for the corresponding constraint object;
  * end to end: for small Repeat programs the set of sequences IterateSATGen can
    return is exhausted and compared with a brute-force enumeration of the documented
    meaning; in particular a block-level AtMostKInARow must admit runs that cross a
    repetition boundary while a combinator-level one must not.
"""
import itertools
import json
import os
import tempfile

import docsem
import flat
import gen_design
import ir
import layout_real
from common import Violation
from props.c14 import nest_complex, loops_forever, time_limit, RealCodeTimeout

TITLE = "block-level vs combinator-level constraint scope"
LEVEL = "proof"
DOMAINS = ['Decode', 'Design', 'Front']

# Finding of this check on the pinned tree, repaired in /repo commit 2f184ec; the window search below
# (sig "ranges:overrun") and the end-to-end search (sig "e2e:partial-last-repetition") report it again
# if the clamp `min(end, num_trials)` in map_block_trial_ranges is removed.
FIXED_OVERRUN = {
    "sig": "ranges:overrun", "status": "fixed", "commit": "2f184ec",
    "what": "map_block_trial_ranges let the window of a partial last repetition run past the last trial "
            "(Repeat(CrossBlock([f],[f],[AtMostKInARow(1,f)]),[MinimumTrials(3)]): ranges (0,2),(2,4) for 3 trials), "
            "so block-level constraints read auxiliary variables",
    "program": "gen_design.corpus() 'repeat-partial-window'"}

KINDS = ("AtMostKInARow", "AtLeastKInARow", "ExactlyKInARow", "ExactlyK", "Pin")


def canon(x):
    return json.dumps(x).replace("[", "(").replace("]", ")").replace(",", "").replace('"', "")


# --------------------------------------------------------------------------- programs

def F(fid, name, levels):
    return {"id": fid, "name": name, "kind": "simple", "levels": [[l, 1] for l in levels]}


def repeat_program(nlev, ngl, k, where, mintrials, level=None, kind="AtMostKInARow"):
    """Repeat(CrossBlock([f(,g)], [f(,g)], block-level constraints), combinator-level constraints + MinimumTrials)."""
    f = F(0, "f", ["a", "b", "c"][:nlev])
    factors = [f]
    design = [0]
    if ngl:
        factors.append(F(1, "g", ["x", "y", "z"][:ngl]))
        design.append(1)
    c = {"id": 0, "kind": kind, "k": k}
    if level is None:
        c["factor"] = 0
    else:
        c["level"] = [0, level]
    cons = [c, {"id": 1, "kind": "MinimumTrials", "trials": mintrials}]
    inner = [0] if where == "block" else []
    outer = ([0] if where == "combinator" else []) + [1]
    return {"factors": factors, "constraints": cons,
            "blocks": [{"id": 0, "kind": "CrossBlock", "design": design, "crossing": design, "constraints": inner, "rcc": True},
                       {"id": 1, "kind": "Repeat", "block": 0, "constraints": outer}], "main": 1}


def e2e_programs(quick):
    out = []
    fams = [(2, 0, 2, (0, 1)), (2, 0, 3, (0, 1)), (3, 0, 2, (0, 1, 2))]
    if not quick:
        fams += [(3, 0, 3, (0, 1)), (2, 2, 2, (0,)), (2, 0, 4, (0, 1))]
    for nlev, ngl, reps, extras in fams:
        S = nlev * (ngl or 1)
        for extra in extras:                # > 0: the last repetition is partial
            T = S * reps + extra
            for where in ("block", "combinator", "none"):
                for k in (1, 2):
                    for level in (None, "a"):
                        out.append(repeat_program(nlev, ngl, k, where, T, level))
    return out


def hand_programs():
    """Minimised programs of the findings of this check (beyond gen_design.corpus())."""
    o = F(0, "o", ["a0", "b0"])
    i2 = F(1, "i", ["a1", "b1"])
    i3 = F(1, "i", ["a1", "b1", "c1"])
    # a window factor on the outer factor, start 2, not crossed: under POST_PREAMBLE the outer block's geometry has
    # preamble == trials, the window step is 0 and compiling the Nest never terminates
    d_out = {"id": 2, "name": "d2", "kind": "derived",
             "window": {"type": "window", "deps": [0], "width": 3, "stride": 2, "start": 2},
             "levels": [{"name": "L2_0", "table": [[["a0", "a0", "a0"]]], "weight": 1}, {"name": "L2_1", "else": True, "weight": 1}]}
    nonterm = {"factors": [o, i2, d_out], "constraints": [{"id": 0, "kind": "Pin", "index": -4, "level": [0, "a0"]}],
               "blocks": [{"id": 0, "kind": "MultiCrossBlock", "design": [0, 2], "crossings": [[0]], "constraints": [0], "rcc": True,
                           "alignment": "post preamble"},
                          {"id": 1, "kind": "MultiCrossBlock", "design": [1], "crossings": [[1]], "constraints": [], "rcc": True,
                           "alignment": "post preamble"},
                          {"id": 2, "kind": "Nest", "outer": 0, "inner": 1, "constraints": [], "alignment": "post preamble"}], "main": 2}
    # a window factor on the inner factor, start 2, not crossed, with a block-level constraint: under POST_PREAMBLE the
    # windows start at preamble_size() but still end at the block's own trial count
    d_in = {"id": 2, "name": "d2", "kind": "derived",
            "window": {"type": "window", "deps": [1], "width": 2, "stride": 2, "start": 2},
            "levels": [{"name": "L2_0", "table": [[["a1", "a1"]], [["b1", "b1"]], [["c1", "c1"]]], "weight": 1},
                       {"name": "L2_1", "else": True, "weight": 1}]}
    post = {"factors": [o, i3, d_in], "constraints": [{"id": 0, "kind": "ExactlyK", "k": 1, "level": [2, "L2_0"]}],
            "blocks": [{"id": 0, "kind": "CrossBlock", "design": [0], "crossing": [0], "constraints": [], "rcc": True},
                       {"id": 1, "kind": "CrossBlock", "design": [1, 2], "crossing": [1], "constraints": [0], "rcc": True},
                       {"id": 2, "kind": "Nest", "outer": 0, "inner": 1, "constraints": [], "alignment": "post preamble"}], "main": 2}
    return [("nest-post-preamble-step-0", nonterm), ("nest-post-preamble-window", post)]


def gen_programs(ctx, n):
    rng = ctx.rng
    out = [(tag, p) for tag, p in gen_design.corpus() if any(b["kind"] in ("Repeat", "Merge", "Nest") for b in p["blocks"])]
    out += hand_programs()
    shapes = ["repeat", "merge", "nest", "repeat", "merge", "multi", "repeat", "cross"]
    i = 0
    while len(out) < n:
        i += 1
        if i % 8 == 7:
            p, tag = nest_complex(rng), "nest-complex"
        else:
            shape = shapes[i % len(shapes)]
            feats = {}
            if i % 3 == 1:
                feats["wtype"] = rng.choice(["transition", "window", "within"])
            p = gen_design.gen_program(rng, max_space=60000, shape=shape, features=feats)
            tag = shape
        if p is not None:
            out.append((tag, p))
    return out


# --------------------------------------------------------------------------- correspondence

def observations(ctx, block):
    """[(model command line, [(layer, canonical real value)])] for one real block: one
    (geomobs FLAT WB ((f l)...) ((f b)...)) line per distinct geometry; its answer is
    `ranges | varlists ; ... | trialnos ; ...` (same model functions as the commands
    ranges / varlists / trialnos, the flat record parsed once)."""
    w = flat.flat_wire(block)
    T = block.trials_per_sample()
    obs = []
    seen = set()
    with ir.quiet():
        for g in layout_real.geoms_of(block):
            gw = docsem.to_wire(flat._geom(block, g))
            if gw in seen:
                continue
            seen.add(gw)
            real = [("ranges", canon(layout_real.real_ranges(block, g)))]
            fls, fbs = [], []
            for f in block.act_design:
                fi = block.design.index(f)
                for li in sorted(set([0, len(f.levels) - 1])):
                    fls.append("(%d %d)" % (fi, li))
                    real.append(("varlists", canon(layout_real.real_varlists(block, f, f.levels[li], g))))
            for f in block.act_design:
                fi = block.design.index(f)
                for b in sorted(set([0, 1, 2, -1, -2, T - 1, T, -T, -T - 1] +
                                    ([g.num_trials - 1, -g.num_trials] if g is not None else []))):
                    fbs.append("(%d %d)" % (fi, b))
                    real.append(("trialnos", canon(layout_real.real_trialnos(block, f, b, g))))
            obs.append(("(geomobs %s %s (%s) (%s))" % (w, gw, " ".join(fls), " ".join(fbs)), real))
    return obs


def split_model(line):
    """answer of geomobs -> list of item strings in the order of the real observations"""
    if line.startswith("!"):
        return None
    parts = line.split(" | ")
    if len(parts) != 3:
        return None
    out = [parts[0]]
    for p in parts[1:]:
        out += [x for x in p.split(" ; ")] if p != "" else []
    return out


# --------------------------------------------------------------------------- search: documented windows

def doc_constraint_windows(program):
    """[(kind, factor name, level name, k-or-index, windows)] from the documentation reading."""
    ds = docsem.doc_sem(program)
    if getattr(ds, "unsat", False):
        # require_complete_crossing with impossible combinations: no valid sequence, the
        # library refuses at synthesis; the documentation defines no windows for it
        raise docsem.Unsupported("complete crossing unsatisfiable")
    fm = {f["id"]: f for f in program["factors"]}
    out = []
    for c0, scope in ds.block.constraints:
        for c in docsem.expand_constraint(program, c0):
            if c["kind"] not in KINDS:
                continue
            wins, scale = docsem.scope_windows(scope, ds.T)
            fid, ln = c["level"]
            param = c.get("k", c.get("index"))
            if c["kind"] == "ExactlyK":
                param *= scale      # an outer block's count is per outer trial; each lasts `scale` trials of the nest
            out.append((c["kind"], fm[fid]["name"], ln, param, [list(x) for x in wins]))
    return ds.T, sorted(out)


def real_constraint_windows(block):
    out = []
    with ir.quiet():
        for c in block.constraints:
            n = type(c).__name__
            if n not in KINDS:
                continue
            lev = c.level
            fac = getattr(c, "factor", None) or lev.factor
            param = c.index if n == "Pin" else c.k
            try:
                rs = [[a, b] for a, b in block.map_block_trial_ranges(c.within_block, lambda s, e: (s, e))]
            except Exception as e:  # noqa
                rs = ["error", type(e).__name__]
            out.append((n, str(getattr(fac.name, "name", fac.name)), str(lev.name), param, rs))
    return sorted(out)


def search_windows(program, block):
    """None if every constraint's real ranges are the documented windows, else (sig, what, detail)."""
    try:
        T, doc = doc_constraint_windows(program)
    except docsem.Unsupported:
        return "unsupported"
    real = real_constraint_windows(block)
    with ir.quiet():
        RT = block.trials_per_sample()
    if RT != T:
        return "trial-count-differs"     # C16's business; windows are not comparable
    if doc == real:
        return None
    dk = [x[:4] for x in doc]
    rk = [x[:4] for x in real]
    if dk != rk:
        # weight desugaring etc. may change the constraint list: only compare when the keys agree
        return "constraint-lists-differ"
    for d, r in zip(doc, real):
        if d[4] != r[4]:
            over = [w for w in r[4] if isinstance(w, list) and w[1] > T]
            if over:
                sig = "ranges:overrun"
                what = ("%s on (%s, %s): the real block iterates over trial ranges %r for a sequence of %d trials: the last "
                        "window [%d, %d) runs past the end of the sequence (documented windows: %r)"
                        % (d[0], d[1], d[2], r[4], T, over[-1][0], over[-1][1], d[4]))
            else:
                from sweetpea._internal.cross_block import AlignmentMode
                post = block.alignment == AlignmentMode.POST_PREAMBLE
                sig = "ranges:post-preamble" if post else "ranges:differ"
                what = ("%s on (%s, %s): the real block iterates over trial ranges %r, the documented scope is %r (%d trials)%s"
                        % (d[0], d[1], d[2], r[4], d[4], T,
                           "; alignment POST_PREAMBLE: preamble_size() = %d" % block.preamble_size() if post else ""))
            return (sig, what, {"constraint": list(d[:4]), "real_ranges": r[4], "documented_windows": d[4], "trials": T})
    return None


# --------------------------------------------------------------------------- search: end to end on small Repeat programs

def run_ok(xs, k):
    """no more than k equal-to-True in a row"""
    run = 0
    for x in xs:
        run = run + 1 if x else 0
        if run > k:
            return False
    return True


def e2e_oracle(program):
    """All sequences valid by the documentation for a program built by repeat_program."""
    fs = program["factors"]
    doms = [[l for l, _ in f["levels"]] for f in fs]
    combos = list(itertools.product(*doms))
    S = len(combos)
    cons = {c["id"]: c for c in program["constraints"]}
    T = cons[1]["trials"]
    c = cons[0]
    inner = 0 in program["blocks"][0]["constraints"]
    outer = 0 in program["blocks"][1]["constraints"]
    levels = [c["level"][1]] if "level" in c else doms[0]
    wins = [(s, min(s + S, T)) for s in range(0, T, S)]
    # per window: sequences of distinct combinations
    per = []
    for a, b in wins:
        ws = []
        for perm in itertools.permutations(combos, b - a):
            if inner and not all(run_ok([x[0] == lv for x in perm], c["k"]) for lv in levels):
                continue
            ws.append(perm)
        per.append(ws)
    out = set()
    for parts in itertools.product(*per):
        seq = tuple(x for part in parts for x in part)
        if outer and not all(run_ok([x[0] == lv for x in seq], c["k"]) for lv in levels):
            continue
        out.add(seq)
    return T, S, wins, out


def crosses_boundary(seq, S, k, levels):
    """has a run longer than k of one of the levels that spans a repetition boundary"""
    T = len(seq)
    for lv in levels:
        i = 0
        while i < T:
            if seq[i][0] == lv:
                j = i
                while j + 1 < T and seq[j + 1][0] == lv:
                    j += 1
                if j - i + 1 > k and i // S != j // S:
                    return True
                i = j + 1
            else:
                i += 1
    return False


def search_e2e(program):
    """None, or (sig, what, detail)."""
    built = ir.build(program)
    block = ir.main_block(built, program)
    if block is None:
        return ("e2e:rejected", "constructors reject the program: %r" % (built.errors,), {})
    T, S, wins, want = e2e_oracle(program)
    # the library writes its temporary CNF file into the working directory: use a scratch one
    cwd = os.getcwd()
    with tempfile.TemporaryDirectory() as tmp:
        os.chdir(tmp)
        try:
            r = ir.synthesize(block, len(want) + 50, "IterateSATGen")
        finally:
            os.chdir(cwd)
    names = [f["name"] for f in program["factors"]]
    c = program["constraints"][0]
    levels = [c["level"][1]] if "level" in c else [l for l, _ in program["factors"][0]["levels"]]
    where = "block" if 0 in program["blocks"][0]["constraints"] else ("combinator" if 0 in program["blocks"][1]["constraints"] else "none")
    if r[0] != "ok":
        got = None
    else:
        got = set()
        for s in r[1]:
            got.add(tuple(tuple(s[n][t] for n in names) for t in range(len(s[names[0]]))))
    partial = (T % S != 0)
    if got is None:
        return ("e2e:partial-last-repetition" if partial else "e2e:error",
                "IterateSATGen raises %s on a Repeat with %s-level %s(k=%d)%s" % (r[1], where, c["kind"], c["k"],
                                                                               " and a partial last repetition" if partial else ""),
                {"error": list(r[1:]), "trials": T})
    if got == want:
        return None
    missing = sorted(want - got)
    extra = sorted(got - want)
    show = lambda s: " ".join("".join(x) for x in s)  # noqa
    if partial:
        sig = "e2e:partial-last-repetition"
    elif where == "block" and any(crosses_boundary(s, S, c["k"], levels) for s in missing):
        sig = "e2e:block-constraint-leaks-across-repetitions"
    elif where == "combinator" and any(crosses_boundary(s, S, c["k"], levels) for s in extra):
        sig = "e2e:combinator-constraint-not-global"
    else:
        sig = "e2e:solution-set-differs"
    what = ("Repeat of a %d-trial crossing to %d trials with %s-level %s(k=%d, %s): IterateSATGen returns %d sequences, the documented "
            "meaning admits %d; valid but never returned: %s; returned but invalid: %s"
            % (S, T, where, c["kind"], c["k"], "level " + levels[0] if "level" in c else "whole factor", len(got), len(want),
               [show(s) for s in missing[:4]], [show(s) for s in extra[:4]]))
    return (sig, what, {"missing": [show(s) for s in missing[:20]], "extra": [show(s) for s in extra[:20]],
                        "returned": len(got), "valid": len(want), "windows": [list(w) for w in wins]})


# --------------------------------------------------------------------------- run / replay

def nested_geometry_programs():
    """Deterministic family: a block with a preamble trial (crossed Transition factor) and a block-level
    windowed constraint, repeated and then nested under POST_PREAMBLE; the geometry (trials, preamble,
    sustain counts) that Repeat / Nest hand on for the block's constraints decides their scope
    (seed C26-sustain-keeps-preamble-unscaled)."""
    A = {"id": 0, "name": "A", "kind": "simple", "levels": [["a1", 1], ["a2", 1]]}
    D = {"id": 1, "name": "D", "kind": "derived", "window": {"type": "transition", "deps": [0]},
         "levels": [{"name": "same", "table": [[["a1", "a1"]], [["a2", "a2"]]]}, {"name": "diff", "else": True}]}
    S = {"id": 2, "name": "S", "kind": "simple", "levels": [["s1", 1], ["s2", 1]]}
    out = []
    for bc in ({"kind": "ExactlyK", "k": 3, "level": [0, "a1"]}, {"kind": "Pin", "index": 1, "level": [0, "a1"]},
               {"kind": "AtMostKInARow", "k": 2, "level": [0, "a2"]}):
        cons = [dict(bc, id=0), {"id": 1, "kind": "MinimumTrials", "trials": 9}, {"id": 2, "kind": "AtMostKInARow", "k": 1, "factor": 2}]
        for with_repeat in (True, False):
            blocks = [{"id": 0, "kind": "CrossBlock", "design": [0, 1], "crossing": [0, 1], "constraints": [0], "rcc": True}]
            outer = 0
            if with_repeat:
                blocks.append({"id": 1, "kind": "Repeat", "block": 0, "constraints": [1]})
                outer = 1
            blocks.append({"id": 2, "kind": "CrossBlock", "design": [2], "crossing": [2], "constraints": [], "rcc": True})
            blocks.append({"id": 3, "kind": "Nest", "outer": outer, "inner": 2, "constraints": [2], "alignment": "post preamble"})
            out.append({"factors": [A, D, S], "constraints": cons, "blocks": blocks, "main": 3})
    return out


def nested_geometry_layer(ctx, res):
    """The arguments (incl. each constraint's geometry) every constructor of these programs hands to _create,
    recorded on the real code, against Front/Create.v (layer L1-create of props/c16.py)."""
    import common
    from props import c16
    lines, expect = [], []
    for p in nested_geometry_programs():
        try:
            built, rec, steps = c16.instrumented_build(p)
        except Exception as e:  # noqa
            res.violations.append(Violation("corr:L1-create", "nested-geometry family: instrumented build failed: %r" % (e,),
                                            {"layer": "L1-create", "program": p}, failing_input=False))
            continue
        for st in steps:
            lines.append("(create %s)" % st["exp"])
            expect.append((rec, st, p))
    if not lines:
        return
    outs = common.run_model(lines, domain="Front")
    bad = []
    for (rec, st, p), mod in zip(expect, outs):
        rv = c16.real_create_view(rec, st)
        try:
            mv = c16.model_create_view(mod)[0]
        except Exception:  # noqa
            mv = "!" + mod
        ok = (rv == mv)
        res.layer("L1-create-nested-geometry", ok)
        if not ok:
            bad.append((p, st, rv, mv))
    if bad:
        p, st, rv, mv = bad[0]
        res.violations.append(Violation(
            "corr:L1-create", "the geometry handed on for a block's constraints differs from Front/Create.v on %d constructor calls "
            "of the nested-geometry family, first: real=%s model=%s" % (len(bad), str(rv)[:300], str(mv)[:300]),
            {"layer": "L1-create-nested-geometry", "theorems": ["C26_*", "C25_nest_args"], "program": p,
             "real": str(rv)[:1500], "model": str(mv)[:1500]}, failing_input=False))


def run(ctx, res):
    nested_geometry_layer(ctx, res)
    n = 120 if ctx.quick else 800
    res.rule = ("%d generated programs (Repeat / Merge / Nest incl. transition and window factors under sustain, MultiCrossBlock with the "
                "three alignments, plain CrossBlock) + corpus: every distinct within_block geometry of the block's constraints and None; "
                "windows of every block-/combinator-level constraint vs the documented scope; %s small Repeat programs exhausted with "
                "IterateSATGen vs brute force; non-trivial = a geometry other than None yielding at least two ranges; "
                "distinct by program text / observation" % (n, "a family of"))
    progs = gen_programs(ctx, n)
    lines = []
    expect = []
    stats = {"rejected": 0, "built": 0, "geometries": 0, "multi-window": 0, "windows-compared": 0, "windows-unsupported": 0,
             "windows-other": 0, "post-preamble": 0, "e2e-programs": 0, "e2e-partial": 0, "nonterminating": 0}
    shapes = {}
    found = []
    for tag, p in progs:
        shapes[tag] = shapes.get(tag, 0) + 1
        built = ir.build(p)
        block = ir.main_block(built, p)
        key = json.dumps(p, sort_keys=True)
        if block is None:
            stats["rejected"] += 1
            res.count(key, nontrivial=False)
            continue
        stats["built"] += 1
        from sweetpea._internal.cross_block import AlignmentMode
        stats["post-preamble"] += (block.alignment == AlignmentMode.POST_PREAMBLE)
        bad_g = [g for g in layout_real.geoms_of(block) if loops_forever(block, g)]
        if bad_g:
            g = bad_g[0]
            stats["nonterminating"] += 1
            found.append(("ranges:nontermination",
                          "a constraint of this accepted design carries the block geometry (trials=%d, preamble=%d): the window step is "
                          "%d, so map_block_trial_ranges (and with it build_backend_request / synthesize_trials) loops forever, "
                          "allocating memory" % (g.num_trials, g.preamble_size, g.num_trials - g.preamble_size),
                          {"geometry": [g.num_trials, g.preamble_size], "trials": block.trials_per_sample()}, p, True))
            continue
        try:
            with time_limit(30):
                obs = observations(ctx, block)
        except RealCodeTimeout:
            found.append(("ranges:real-code-timeout", "the real block does not return its trial ranges / variable lists within 30 s",
                          {}, p, True))
            continue
        except Exception as e:  # noqa
            found.append(("harness", "harness error: %s %s" % (type(e).__name__, str(e)[:200]), {}, p, False))
            continue
        multi = False
        for line, real in obs:
            lines.append(line)
            expect.append((real, p))
            stats["geometries"] += 1
            if real[0][1].count("(") > 2:
                multi = True
        stats["multi-window"] += multi
        res.count(key, nontrivial=multi)
        w = search_windows(p, block)
        if w is None:
            stats["windows-compared"] += 1
        elif w == "unsupported":
            stats["windows-unsupported"] += 1
        elif isinstance(w, str):
            stats["windows-other"] += 1
        else:
            stats["windows-compared"] += 1
            found.append((w[0], w[1], w[2], p, True))
        if multi:
            res.sample({"shape": tag, "trials": block.trials_per_sample(),
                        "ranges": [real[0][1] for _, real in obs][:4]})
    outs = ctx.model(lines) if lines else []
    corr_bad = []
    for (real, p), line in zip(expect, outs):
        items = split_model(line)
        if items is None or len(items) != len(real):
            res.layer("L2-ranges", False)
            corr_bad.append(("ranges", p, real[0][1], line[:300]))
            continue
        for (kind, rv), mv in zip(real, items):
            ok = (rv == mv)
            res.layer("L2-" + kind, ok)
            res.count(None, nontrivial=False)
            if not ok:
                corr_bad.append((kind, p, rv, mv))
    for p in e2e_programs(ctx.quick):
        stats["e2e-programs"] += 1
        T = p["constraints"][1]["trials"]
        S = 1
        for f in p["factors"]:
            S *= len(f["levels"])
        stats["e2e-partial"] += (T % S != 0)
        res.count(json.dumps(p, sort_keys=True), nontrivial=True)
        b = search_e2e(p)
        if b is not None:
            found.append((b[0], b[1], b[2], p, True))
    res.extra["input_distribution"] = {"shapes": shapes, "stats": stats}
    res.extra["fixed_findings"] = [FIXED_OVERRUN]
    seen = set()
    for sig, what, detail, p, concrete in found:
        if sig in seen:
            continue
        seen.add(sig)
        res.violations.append(Violation(sig, what + "  program=" + json.dumps(p, sort_keys=True)[:900],
                                        {"program": p, "detail": detail, "sig": sig}, failing_input=concrete))
    if corr_bad and not [f for f in found if f[4]]:
        kind, p, real, mod = corr_bad[0]
        res.violations.append(Violation(
            "corr:L2-" + kind, "model Design/Layout.v and the real block disagree on %d observations, first: %s real=%s model=%s"
            % (len(corr_bad), kind, real[:200], mod[:200]),
            {"layer": "L2-" + kind, "program": p, "real": real[:2000], "model": mod[:2000], "theorems": ["C26_*"]}, failing_input=False))
    elif corr_bad:
        res.notes.append("model/code disagreements: %d (first layer L2-%s)" % (len(corr_bad), corr_bad[0][0]))
    res.notes.append("L2: literal ranges / variable lists / trial numbers per geometry; search: documented windows (docsem.scope_windows) "
                     "vs real ranges per constraint, and exhaustive IterateSATGen vs brute force on small Repeat programs")


def replay(ctx, data):
    p = data["program"]
    sig = data.get("sig", "")
    if sig.startswith("e2e:"):
        b = search_e2e(p)
        return b is not None and b[0] == sig
    built = ir.build(p)
    block = ir.main_block(built, p)
    if block is None:
        return False
    if sig == "ranges:nontermination":
        return any(loops_forever(block, g) for g in layout_real.geoms_of(block))
    if any(loops_forever(block, g) for g in layout_real.geoms_of(block)):
        return False
    w = search_windows(p, block)
    return isinstance(w, tuple) and w[0] == sig
