"""C27 - Solver input and output text is faithful.

Theorems: coq/theories/Properties/C27.v (about Text/{Tok,Dimacs,SolverIO}.v).
Correspondence: the real printers write real files into a scratch directory
under /tmp (removed afterwards); the text is tokenised with str.split per line
and compared with the token lines of the extracted model; the real parsers run
on model-printed (and on noisy) text; solver-output formatting/parsing and the
update (blocking clause) step are compared on synthetic solver outputs.  The
third-party solver modules are replaced in-process by recording fakes where the
parser is not callable on its own (nothing in /repo is edited).
Layer `chars` (Text/Chars.v, Text/TextChars.v): the model's TEXT is compared
BYTE FOR BYTE with what the real writers put into the file / return, the
model's character-level readers run on the real file bytes and on noisy text
and are compared with the real parsers, and the string primitives (str(int),
int(str), split, strip, split('\\n')) are compared with CPython on random ASCII
strings; texts travel hex-encoded.
Search: the property itself on the real code: an independent stream DIMACS
reader re-reads the real text (clauses as a multiset vs. the CNF object, header
counts, sampling set = 1..support), the library's own parsers must recover the
same, the blocking clause must exclude exactly the previous support assignment
(all assignments of <= 6 support variables), and the real iterate loop with the
real pycryptosat must enumerate exactly the projected models.
"""
import contextlib
import importlib
import io
import itertools
import os
import shutil
import tempfile
from collections import Counter
from pathlib import Path

from common import Violation, sexp, Atom, parse_sexp

TITLE = "solver text I/O"
LEVEL = "proof"
DOMAINS = ['Text']


# --------------------------------------------------------------------------- plumbing

@contextlib.contextmanager
def scratch():
    """A scratch directory under /tmp; the cwd moves there because
    `temporary_cnf_file` creates its files in the cwd."""
    d = tempfile.mkdtemp(prefix="spverif_text_", dir="/tmp")
    old = os.getcwd()
    try:
        os.chdir(d)
        yield Path(d)
    finally:
        os.chdir(old)
        shutil.rmtree(d, ignore_errors=True)


@contextlib.contextmanager
def quiet():
    with contextlib.redirect_stdout(io.StringIO()):
        yield


@contextlib.contextmanager
def patched(mod, name, value):
    old = getattr(mod, name)
    setattr(mod, name, value)
    try:
        yield
    finally:
        setattr(mod, name, old)


def tokenise(text):
    return [ln.split() for ln in text.split("\n")]


def render(lines, rng=None):
    """token lines -> text; optionally blanks around lines (stripped by the code)."""
    out = []
    for ln in lines:
        s = " ".join(ln)
        if rng is not None and rng.random() < 0.15:
            s = rng.choice([" ", "  ", "\t"]) + s + rng.choice(["", " "])
        out.append(s)
    return "\n".join(out)


def model_file(out):
    """model output line -> token lines, or None for `none`."""
    if out.startswith("!"):
        return ("model-error", out)
    r = parse_sexp(out)
    if r == ["none"]:
        return None
    return [[str(t) for t in ln] for ln in r[0]]


def wire_file(lines):
    return [[str(t) for t in ln] for ln in lines]


def mods():
    m = {}
    m["cnf"] = importlib.import_module("sweetpea._internal.core.cnf")
    m["util"] = importlib.import_module("sweetpea._internal.core.generate.utility")
    m["cm"] = importlib.import_module("sweetpea._internal.core.generate.tools.cryptominisat")
    m["ug"] = importlib.import_module("sweetpea._internal.core.generate.tools.unigen")
    m["snu"] = importlib.import_module("sweetpea._internal.core.generate.sample_non_uniform")
    m["su"] = importlib.import_module("sweetpea._internal.core.generate.sample_uniform")
    return m


def real_reqs(m, reqs):
    GR, AT, Var = m["util"].GenerationRequest, m["util"].AssertionType, m["cnf"].Var
    return [GR(AT[kd], k, [Var(v) for v in vs]) for kd, k, vs in reqs]


def wire_reqs(reqs):
    return [[Atom(kd), k, list(vs)] for kd, k, vs in reqs]


def guard(f):
    try:
        return f()
    except Exception as e:  # noqa
        return ("error", type(e).__name__)


def no_binary(*a, **k):
    raise RuntimeError("no solver binary in the sandbox")


# --------------------------------------------------------------------------- fakes

class Rec:
    def __init__(self):
        self.clauses = []
        self.solutions = []      # queue of solve() results
        self.sampling = None
        self.samples = None


def fake_pycryptosat(rec):
    class Solver:
        def __init__(self, *a, **k):
            rec.clauses = []

        def add_clause(self, c):
            rec.clauses.append(list(c))

        def solve(self):
            return rec.solutions.pop(0)

    class Mod:
        pass
    Mod.Solver = Solver
    return Mod


def fake_pyunigen(rec):
    class Sampler:
        def __init__(self, *a, **k):
            rec.clauses = []

        def add_clause(self, c):
            rec.clauses.append(list(c))

        def sample(self, num=None, sampling_set=None):
            rec.sampling = list(sampling_set)
            return (1 if rec.samples else 0, 0, rec.samples)

    class Mod:
        pass
    Mod.Sampler = Sampler
    return Mod


# --------------------------------------------------------------------------- generators

def rand_lit(rng, pool):
    return rng.choice([-1, 1]) * rng.choice(pool)


def rand_cnf(rng, style=None, allow_empty=True, maxcl=8):
    style = style or rng.choice(["contig", "contig", "gaps", "big"])
    if style == "contig":
        n = rng.randint(1, 12)
        pool = list(range(1, n + 1))
    elif style == "gaps":
        pool = sorted(rng.sample(range(1, 60), rng.randint(1, 8)))
    else:
        pool = [rng.randint(1, 10 ** 25) for _ in range(4)] + [1, 2, 3]
    cls = []
    for _ in range(rng.randint(0, maxcl)):
        ln = rng.randint(1, 4)
        if allow_empty and rng.random() < 0.06:
            ln = 0
        cls.append([rand_lit(rng, pool) for _ in range(ln)])
    if style == "contig" and cls and rng.random() < 0.7:
        # make every variable 1..n occur (the shape of a compiled design)
        cls.append(list(pool))
    return cls


def rand_reqs(rng, fresh, maxn=5):
    out = []
    for _ in range(rng.randint(0, 2)):
        n = rng.randint(1, max(1, min(maxn, fresh)))
        vs = rng.sample(range(1, max(fresh, n) + 1), n)
        out.append((rng.choice(("EQ", "LT", "GT")), rng.randint(0, n + 1), vs))
    return out


NOISE = [
    ["p", "cnf"], ["p", "cnf", "7"], ["p", "cnf", "x", "3"], ["p", "foo", "3", "4"], ["p", "foo", "bar"], ["p"],
    ["c", "hello", "1"], ["c"], ["cxyz", "1"], ["c", "ind"], ["c", "index", "4", "0"], ["c", "ind", "x", "0"],
    ["c", "in", "3"], ["0"], ["0", "0"], ["1", "0", "2", "0"], ["3", "-4"], ["1", "x", "0"], ["v3", "0"],
    ["+3", "-1", "0"], ["1:2", "0"], ["c", "ind", "5", "0", "6", "0"], ["c", "ind", "3", "3", "1", "0"],
    [], [], ["p", "cnf", "9", "9", "9"], ["s", "SATISFIABLE"], ["-2", "5", "0"],
]


def noisy_file(rng, base):
    f = [list(ln) for ln in base]
    for _ in range(rng.randint(1, 4)):
        f.insert(rng.randint(0, len(f)), list(rng.choice(NOISE)))
    return f


# --------------------------------------------------------------------------- independent oracle

def dimacs_read(text):
    """Independent stream reader of (Unigen-flavoured) DIMACS: clauses are
    0-terminated integer runs regardless of line breaks.  Returns
    (declared_vars, declared_clauses, clauses, sampling_set)."""
    nv = nc = None
    inds = []
    stream = []
    for raw in text.split("\n"):
        s = raw.strip()
        if not s:
            continue
        if s[0] == "c":
            t = s.split()
            if len(t) >= 2 and t[0] == "c" and t[1] == "ind":
                inds += [int(x) for x in t[2:] if int(x) != 0]
            continue
        if s[0] == "p":
            t = s.split()
            nv, nc = int(t[2]), int(t[3])
            continue
        stream += [int(x) for x in s.split()]
    clauses, cur = [], []
    for x in stream:
        if x == 0:
            clauses.append(cur)
            cur = []
        else:
            cur.append(x)
    if cur:
        raise ValueError("unterminated clause")
    return nv, nc, clauses, inds


def solver_says_sat(clauses):
    import pycryptosat
    s = pycryptosat.Solver()
    for c in clauses:
        s.add_clause(c)
    return bool(s.solve()[0])


def mset(cls):
    return Counter(tuple(c) for c in cls)


def brute_models(clauses, nvars):
    for bits in itertools.product([False, True], repeat=nvars):
        if all(any((bits[abs(l) - 1] if l > 0 else not bits[abs(l) - 1]) for l in c) for c in clauses):
            yield bits


# --------------------------------------------------------------------------- the property on the real code

def robust(f):
    """An exception escaping the real code during a property evaluation is a failing input, not a harness crash."""
    def g(*a, **k):
        try:
            return f(*a, **k)
        except Exception as e:  # noqa
            return {"problem": "the real code raised %s: %s" % (type(e).__name__, str(e)[:120])}
    g.__name__ = f.__name__
    return g


def prop_saved_text(m, init, fresh, support, reqs):
    try:
        return _prop_saved_text(m, init, fresh, support, reqs)
    except Exception as e:  # noqa
        return [("text:raises", {"problem": "the real code raised %s: %s" % (type(e).__name__, str(e)[:120])})]


def _prop_saved_text(m, init, fresh, support, reqs):
    """combine_and_save_cnf writes a faithful file and both library parsers
    recover it.  Returns a list of (sig, detail)."""
    CNF = m["cnf"].CNF
    bad = []
    with scratch() as d, quiet():
        p = d / "f.cnf"
        obj = m["util"].combine_cnf_with_requests(CNF(init), fresh, support, real_reqs(m, reqs))
        want = obj.as_list_of_list_of_ints()
        m["util"].combine_and_save_cnf(p, CNF(init), fresh, support, real_reqs(m, reqs))
        text = p.read_text()
        nv, nc, got, inds = dimacs_read(text)
        used = max([abs(l) for c in want for l in c] + [0])
        if mset(got) != mset(want):
            bad.append(("text:clauses", {"written": got[:6], "object": want[:6]}))
        if nc != len(want):
            bad.append(("header:clause-count", {"declared": nc, "clauses": len(want)}))
        if nv < used:
            bad.append(("header:under-declared", {"declared_vars": nv, "largest_variable_used": used}))
        if inds != list(range(1, support + 1)):
            bad.append(("text:sampling-set", {"written": inds[:12], "support": support}))
        # the library's own parsers
        pc, pss, pnv = m["ug"].parse_cnf_file(p)
        rec = Rec()
        rec.solutions = [(False, None)]
        with patched(m["cm"], "pycryptosat", fake_pycryptosat(rec)):
            m["cm"]._use_pycryptosat_library(p)
        for name, parsed in (("parse_cnf_file", pc), ("_use_pycryptosat_library", rec.clauses)):
            if mset(parsed) != mset(want):
                missing = list((mset(want) - mset(parsed)).elements())[:3]
                sig = "parser:empty-clause-dropped" if missing and all(len(c) == 0 for c in missing) else "parser:clauses"
                bad.append((sig, {"parser": name, "lost": [list(c) for c in missing]}))
        if pss != list(range(1, support + 1)):
            bad.append(("parser:sampling-set", {"parsed": pss[:12], "support": support}))
    return bad


@robust
def prop_blocking(m, cls, support, prev):
    """update_file adds exactly one clause, which excludes exactly `prev` on
    the support variables."""
    CNF = m["cnf"].CNF
    with scratch() as d, quiet():
        p = d / "f.cnf"
        m["util"].save_cnf(p, CNF(cls), None, support)
        nv0, nc0, c0, i0 = dimacs_read(p.read_text())
        m["snu"].update_file(p, list(prev))
        nv1, nc1, c1, i1 = dimacs_read(p.read_text())
    extra = mset(c1) - mset(c0)
    if mset(c0) - mset(c1) or sum(extra.values()) != 1:
        return {"problem": "clauses not old + one", "added": [list(c) for c in extra.elements()]}
    if nc1 != nc0 + 1 or nv1 != nv0 or i1 != i0:
        return {"problem": "header/sampling changed wrongly", "before": [nv0, nc0], "after": [nv1, nc1]}
    b = list(next(iter(extra.elements())))
    prevbits = tuple(l > 0 for l in prev)
    for bits in itertools.product([False, True], repeat=support):
        holds = any((bits[abs(l) - 1] if l > 0 else not bits[abs(l) - 1]) for l in b if abs(l) <= support) or \
            any(abs(l) > support for l in b)
        if holds != (bits != prevbits):
            return {"problem": "blocking clause wrong", "clause": b, "assignment": [i + 1 for i in range(support) if bits[i]]}
    return None


@robust
def prop_loop(m, cls, nvars, support):
    """The real iterate loop (real pycryptosat) returns exactly the projected
    models, each once."""
    CNF = m["cnf"].CNF
    want = {bits[:support] for bits in brute_models(cls, nvars)}
    with scratch() as d, quiet(), patched(m["cm"], "ensure_executable_available", no_binary):
        p = d / "f.cnf"
        m["util"].save_cnf(p, CNF(cls), None, support)
        sols = m["snu"].compute_solutions(p, support, 2 ** support + 3, None, False)
    got = [tuple(l > 0 for l in s) for s in sols]
    for s in sols:
        if [abs(l) for l in s] != list(range(1, support + 1)):
            return {"problem": "malformed solution", "solution": s}
    if len(set(got)) != len(got):
        return {"problem": "a solution was returned twice", "solutions": sols[:8]}
    if set(got) != want:
        return {"problem": "solution set differs from the projected models",
                "missing": [list(x) for x in list(want - set(got))[:3]], "extra": [list(x) for x in list(set(got) - want)[:3]]}
    return None


@robust
def prop_roundtrip(m, bools, support):
    """Formatting a pycryptosat model and parsing it back gives the model."""
    rec = Rec()
    rec.solutions = [(True, tuple([None] + list(bools)))]
    with scratch() as d, quiet(), patched(m["cm"], "pycryptosat", fake_pycryptosat(rec)), \
            patched(m["cm"], "ensure_executable_available", no_binary):
        p = d / "f.cnf"
        p.write_text("p cnf 1 1\n1 0\n")
        got = m["cm"].cryptominisat_solve(p, False)
    want = [(i + 1) if b else -(i + 1) for i, b in enumerate(bools)]
    if got[:support] != want[:support] or got != want + [0]:
        return {"problem": "parsed solver output differs from the assignment", "parsed": got, "assignment": want}
    return None


@robust
def prop_sampler(m, cls, nvars, support, use_cmsgen):
    """Real pyunigen / pycmsgen path: the sampling set handed over is
    1..support and every returned sample is a projected model."""
    CNF = m["cnf"].CNF
    want = {bits[:support] for bits in brute_models(cls, nvars)}
    if not want:
        return None
    seen = {}
    ug = m["ug"]
    real = ug.pyunigen.Sampler

    class Spy:
        def __init__(self, *a, **k):
            self._s = real(*a, **k)

        def add_clause(self, c):
            return self._s.add_clause(c)

        def sample(self, num=None, sampling_set=None):
            seen["ss"] = list(sampling_set)
            return self._s.sample(num=num, sampling_set=sampling_set)

    class Mod:
        Sampler = Spy
    with scratch(), quiet(), patched(ug, "pyunigen", Mod), patched(ug, "ensure_executable_available", no_binary):
        sols = m["su"].sample_uniform(4, CNF(cls), nvars, support, [], use_docker=False, use_cmsgen=use_cmsgen)
    if not use_cmsgen and want and seen.get("ss") != list(range(1, support + 1)):
        return {"problem": "sampling set handed to pyunigen", "sampling_set": seen.get("ss"), "support": support}
    if want and not sols:
        return {"problem": "no sample for a satisfiable formula"}
    for s in sols:
        a = s.assignment
        if [abs(l) for l in a] != list(range(1, support + 1)) or tuple(l > 0 for l in a) not in want:
            return {"problem": "sample is not a projected model", "sample": a}
    return None



# --------------------------------------------------------------------------- character level

def hx(text):
    """text -> wire atom (hex of the bytes; the texts are ASCII)."""
    return Atom("x" + text.encode("latin-1").hex())


def unhx(out):
    """model output -> text, None for `none`, ('model-error', ..) otherwise."""
    if out == "none":
        return None
    if not out.startswith("x"):
        return ("model-error", out)
    return bytes.fromhex(out[1:]).decode("latin-1")


WS = " \t\n\x0b\x0c\r\x1c\x1d\x1e\x1f"
ALPHA = "0123456789" * 3 + "+-_" * 2 + WS + "avx:;=p."


def rand_ascii(rng, maxlen=9):
    r = rng.random()
    if r < 0.35:       # integer-like
        s = rng.choice(["", "", "-", "+", "+-", " "]) + "".join(rng.choice("0123456789_" if rng.random() < 0.3 else "0123456789")
                                                                 for _ in range(rng.randint(0, 6)))
        return s + rng.choice(["", "", "", " ", "\n", "_", "x"])
    if r < 0.7:        # words and blanks
        return "".join(rng.choice([rng.choice(WS), rng.choice(WS) * 2, "ab", "c", "-12", "0", "v3", "p"]) for _ in range(rng.randint(0, 7)))
    return "".join(rng.choice(ALPHA) for _ in range(rng.randint(0, maxlen)))


def py_int(t):
    try:
        return str(int(t))
    except ValueError:
        return "none"


# texts on which the lexer-composed readers are DOCUMENTED to differ from the real parsers
# (Text/TextChars.v header): non-canonical decimals and 'c ind' written with another blank
RESTRICTED = [
    "p cnf 7 1\n007 0\n", "p cnf 2 1\n1 -0\n", "p cnf 2 1\n+01 2 0\n", "p cnf 1_0 1\n1 0\n",
    "p cnf 3 1\nc  ind 1 2 0\n1 0\n", "p cnf 3 1\nc\tind 1 2 0\n1 0\n", "p cnf 3 1\n1 00\n",
]


def chars_layer(ctx, res, m, rng, note, oc):
    """Byte-for-byte comparison of the character-level model with the real text I/O."""
    q = ctx.quick
    CNF, Var = m["cnf"].CNF, m["cnf"].Var
    stats = Counter()
    # ---- C0 primitives -----------------------------------------------------------------------
    zs = [0, 1, -1, 9, 10, -10, 99, 100, 10 ** 25, -10 ** 25] + \
         [rng.choice([-1, 1]) * rng.randint(0, 10 ** rng.randint(1, 30)) for _ in range(300 if q else 1500)]
    outs = ctx.model([sexp([Atom("c_str_z"), z]) for z in zs])
    for z, o in zip(zs, outs):
        note("chars-str(int)", unhx(o) == str(z), ("c_str_z", z))
        stats["str(int)"] += 1
    strs = ["", " ", "0", "-0", "+0", "007", "1_0", "1__0", "_1", "1_", "+", "-", " 12\n", "\x1f5\x1c", "1 2", "--1", "+-1"] + \
           [rand_ascii(rng) for _ in range(1500 if q else 8000)]
    lines = []
    for t in strs:
        lines += [sexp([Atom("c_int"), hx(t)]), sexp([Atom("c_split"), hx(t)]), sexp([Atom("c_strip"), hx(t)]),
                  sexp([Atom("c_lines"), hx(t)])]
    outs = ctx.model(lines)
    for i, t in enumerate(strs):
        o = outs[4 * i:4 * i + 4]
        note("chars-int(str)", o[0] == py_int(t), ("c_int", t))
        oc["int(str):" + ("error" if o[0] == "none" else "ok")] += 1
        note("chars-split", [unhx(x) for x in parse_sexp(o[1])[0]] == t.split(), ("c_split", t))
        note("chars-strip", unhx(o[2]) == t.strip(), ("c_strip", t))
        note("chars-lines", [unhx(x) for x in parse_sexp(o[3])[0]] == t.split("\n"), ("c_lines", t))
        stats["primitive-strings"] += 1
        res.count(("chars-prim", t), nontrivial=len(t) > 0)
    # ---- C1 writers, byte for byte -------------------------------------------------------------
    cases, lines = [], []
    for _ in range(500 if q else 2500):
        cls = rand_cnf(rng)
        fvc = rng.choice([None, None, rng.randint(0, 40)])
        sup = rng.choice([None, 0, 1, 9, 10, 11, 20, 21, rng.randint(0, 25)])
        sv = sorted(rng.sample(range(1, 40), rng.randint(0, 23)))
        cases.append((cls, fvc, sup, sv))
        lines += [sexp([Atom("c_str"), cls]), sexp([Atom("c_dimacs"), cls, fvc]),
                  sexp([Atom("c_unigen"), cls, fvc, [Atom("len"), sup] if sup is not None else Atom("none")]),
                  sexp([Atom("c_unigen"), cls, fvc, [Atom("vars"), sv]]),
                  sexp([Atom("c_save_cnf"), cls, sup])]
    outs = ctx.model(lines)
    real_texts = []
    with scratch() as d:
        for i, (cls, fvc, sup, sv) in enumerate(cases):
            o = [unhx(x) for x in outs[5 * i:5 * i + 5]]
            c = CNF(cls)
            note("chars-write-str", str(c) == o[0], ("c_str", cls))
            note("chars-write-dimacs", c.as_dimacs_string(fvc) == o[1], ("c_dimacs", cls, fvc))
            note("chars-write-unigen", c.as_unigen_string(fvc, support_set_length=sup) == o[2], ("c_unigen", cls, fvc, sup))
            note("chars-write-unigen", c.as_unigen_string(fvc, sampled_variables=[Var(v) for v in sv]) == o[3],
                 ("c_unigen-vars", cls, fvc, sv))
            p = d / ("s%d.cnf" % i)
            m["util"].save_cnf(p, c, fvc, sup)
            raw = p.read_bytes()
            note("chars-write-save_cnf", raw == (o[4] or "").encode("latin-1"), ("c_save_cnf", cls, sup))
            stats["writer-files"] += 1
            stats["writer-bytes"] += len(raw)
            if any(len(cl) == 0 for cl in cls):
                stats["writer-files-with-empty-clause"] += 1
            p.unlink()
            if all(abs(l) < 10 ** 6 for cl in cls for l in cl):
                real_texts.append(raw.decode("latin-1"))
            res.count(("chars-print", repr(cls), fvc, sup), nontrivial=len(cls) > 0)
    cases, lines = [], []
    for _ in range(160 if q else 800):
        cls = rand_cnf(rng, rng.choice(["contig", "gaps"]), maxcl=5)
        fresh = max([abs(l) for c in cls for l in c] + [rng.randint(1, 6)]) if rng.random() < 0.7 else rng.randint(1, 8)
        reqs = rand_reqs(rng, fresh)
        sup = rng.randint(0, 14)
        cases.append((cls, fresh, sup, reqs))
        lines.append(sexp([Atom("c_combine_save"), cls, fresh, sup, wire_reqs(reqs)]))
    outs = ctx.model(lines)
    with scratch() as d, quiet():
        for i, (cls, fresh, sup, reqs) in enumerate(cases):
            p = d / ("c%d.cnf" % i)
            r = guard(lambda: m["util"].combine_and_save_cnf(p, CNF(cls), fresh, sup, real_reqs(m, reqs)))
            mo = unhx(outs[i])
            if isinstance(r, tuple):
                ok = mo is None
            else:
                raw = p.read_bytes()
                ok = isinstance(mo, str) and raw == mo.encode("latin-1")
                real_texts.append(raw.decode("latin-1"))
                stats["writer-files"] += 1
                stats["writer-bytes"] += len(raw)
            note("chars-write-combine_and_save_cnf", ok, ("c_combine_save", cls, fresh, sup, reqs))
            res.count(("chars-combine", repr(cls), fresh, sup, repr(reqs)), nontrivial=len(reqs) > 0)
            if p.exists():
                p.unlink()
    # ---- C2 readers on the REAL file bytes and on noisy text -----------------------------------
    texts = real_texts[: (400 if q else 1500)]
    base_files = [tokenise(t) for t in texts[:200]]
    texts += [render(noisy_file(rng, rng.choice(base_files)), rng) for _ in range(600 if q else 3000)]
    lines = []
    for t in texts:
        lines += [sexp([Atom("c_parse_cms"), hx(t)]), sexp([Atom("c_parse_unigen"), hx(t)])]
    outs12 = ctx.model(lines)
    lines = []
    for i, t in enumerate(texts):
        mo = outs12[2 * i + 1]
        lines.append(sexp([Atom("c_sampler_input"), solver_says_sat(parse_sexp(mo)[0]) if mo != "none" else True, hx(t)]))
    outs3 = ctx.model(lines)
    rec = Rec()
    with scratch() as d, quiet(), patched(m["cm"], "pycryptosat", fake_pycryptosat(rec)), \
            patched(m["ug"], "pyunigen", fake_pyunigen(rec)):
        p = d / "in.cnf"
        for i, t in enumerate(texts):
            p.write_bytes(t.encode("latin-1"))
            rec.solutions = [(False, None)]
            rec.clauses = None
            r = guard(lambda: m["cm"]._use_pycryptosat_library(p))
            mo = outs12[2 * i]
            ok = (mo == "none") if isinstance(r, tuple) else (mo != "none" and parse_sexp(mo)[1] == rec.clauses)
            note("chars-read-pycryptosat", ok, ("c_parse_cms", t))
            r = guard(lambda: m["ug"].parse_cnf_file(p))
            mo = outs12[2 * i + 1]
            if r[0] == "error":
                ok = mo == "none"
            else:
                pr = parse_sexp(mo)
                ok = mo != "none" and [pr[0], pr[1], pr[2]] == [r[0], r[1], r[2]]
            note("chars-read-parse_cnf_file", ok, ("c_parse_unigen", t))
            rec.clauses, rec.sampling, rec.samples = None, None, [[1]]
            r = guard(lambda: m["ug"].call_unigen_python(p, 1))
            mo = outs3[i]
            if isinstance(r, tuple):
                ok = mo == "none"
            elif rec.sampling is None:
                ok = mo == "empty" and r == ""
            else:
                pr = parse_sexp(mo)
                ok = mo not in ("none", "empty") and pr[0] == rec.clauses and pr[1] == rec.sampling
            note("chars-read-sampler-input", ok, ("c_sampler_input", t))
            stats["reader-texts"] += 1
            res.count(("chars-parse", t), nontrivial=len(t) > 12)
        # the documented restrictions: the real parser accepts, the lexer-composed reader does not agree
        outs = ctx.model([sexp([Atom("c_parse_unigen"), hx(t)]) for t in RESTRICTED])
        div = 0
        for t, mo in zip(RESTRICTED, outs):
            p.write_bytes(t.encode("latin-1"))
            r = guard(lambda: m["ug"].parse_cnf_file(p))
            same = r[0] != "error" and mo != "none" and [parse_sexp(mo)[0], parse_sexp(mo)[1], parse_sexp(mo)[2]] == [r[0], r[1], r[2]]
            div += 0 if same else 1
            note("chars-documented-restriction-differs", not same, ("restricted", t))
        stats["documented-reader-restrictions-confirmed"] = div
        stats["documented-reader-restrictions-listed"] = len(RESTRICTED)
    # ---- C3 solver output and the update step, byte for byte ---------------------------------------
    cases, lines = [], []
    for _ in range(300 if q else 1500):
        n = rng.randint(0, 14)
        bools = [rng.random() < 0.5 for _ in range(n)]
        sup = rng.randint(0, n + 2)
        base = rng.choice(real_texts)
        sol = [(i + 1) * rng.choice([-1, 1]) for i in range(rng.randint(0, 8))]
        pad = rng.choice(["", "", "\n", " \n\n", "\n  "]), rng.choice(["", "", "\n", "\n \n"])
        samples = [[(i + 1) * rng.choice([-1, 1]) for i in range(rng.randint(0, 5))] for _ in range(rng.randint(0, 3))]
        cases.append((bools, sup, base, sol, pad, samples))
        lines += [sexp([Atom("c_cms_output"), [1 if b else 0 for b in bools]]),
                  sexp([Atom("c_update_file"), hx(pad[0] + base + pad[1]), sol]),
                  sexp([Atom("c_unigen_format"), samples])]
    outs = ctx.model(lines)
    lines2 = []
    for i, (bools, sup, base, sol, pad, samples) in enumerate(cases):
        lines2 += [sexp([Atom("c_parse_v"), Atom(outs[3 * i])]), sexp([Atom("c_solve_result"), Atom(outs[3 * i]), sup]),
                   sexp([Atom("c_parse_sampler"), Atom(outs[3 * i + 2])])]
    outs2 = ctx.model(lines2)
    rec = Rec()
    with scratch() as d, quiet(), patched(m["cm"], "pycryptosat", fake_pycryptosat(rec)), \
            patched(m["cm"], "ensure_executable_available", no_binary), patched(m["ug"], "pyunigen", fake_pyunigen(rec)):
        p = d / "in.cnf"
        for i, (bools, sup, base, sol, pad, samples) in enumerate(cases):
            p.write_bytes(base.encode("latin-1"))
            rec.solutions = [(True, tuple([None] + bools))]
            cp = m["cm"]._use_pycryptosat_library(p)
            note("chars-write-pycryptosat-output", cp.stdout == (unhx(outs[3 * i]) or "").encode("latin-1"), ("c_cms_output", bools))
            rec.solutions = [(True, tuple([None] + bools))]
            r = guard(lambda: m["cm"].cryptominisat_solve(p, False))
            note("chars-read-v-lines", r == parse_sexp(outs2[3 * i])[0], ("c_parse_v", bools))
            note("chars-read-v-lines", (r[:sup] if isinstance(r, list) else r) == parse_sexp(outs2[3 * i + 1])[0], ("c_solve_result", bools, sup))
            rec.samples = samples
            t1 = m["ug"].call_unigen_python(p, len(samples)) if any(ln and ln[0] not in "cp" for ln in base.split("\n")) else None
            if t1 is not None and rec.sampling is not None:
                note("chars-write-unigen-output", t1 == unhx(outs[3 * i + 2]), ("c_unigen_format", samples))
            rec.sampling = None
            p.write_bytes((pad[0] + base + pad[1]).encode("latin-1"))
            r = guard(lambda: m["snu"].update_file(p, list(sol)))
            mo = unhx(outs[3 * i + 1])
            ok = (mo is None) if isinstance(r, tuple) else (isinstance(mo, str) and p.read_bytes() == mo.encode("latin-1"))
            note("chars-write-update_file", ok, ("c_update_file", pad[0] + base + pad[1], sol))
            stats["update-files"] += 1
            res.count(("chars-update", base, tuple(sol), tuple(bools)), nontrivial=len(sol) > 0)
    # ---- C4 call_cmsgen_python's text, byte for byte, and the sampler-output reader on both texts ----
    base = "p cnf 6 2\nc ind 1 2 3 0\n1 2 0\n-4 5 6 0\n"
    base_nss = "p cnf 4 1\n\n1 -2 0\n"
    cases, lines = [], []
    for _ in range(160 if q else 800):
        k = rng.randint(0, 4)
        sols = [[rng.random() < 0.5 for _ in range(rng.randint(1, 8))] for _ in range(k)]
        samples = [[(i + 1) * rng.choice([-1, 1]) for i in range(rng.randint(0, 5))] for _ in range(k)]
        b = rng.choice([base, base_nss])
        ss = [1, 2, 3] if b is base else [1, 2, 3, 4]
        cases.append((sols, samples, b))
        lines += [sexp([Atom("c_cmsgen_format"), ss, [[1 if x else 0 for x in s] for s in sols]]),
                  sexp([Atom("c_unigen_format"), samples])]
    outs = ctx.model(lines)
    outs2 = ctx.model([sexp([Atom("c_parse_sampler"), Atom(o)]) for o in outs])
    with scratch() as d, quiet():
        p = d / "in.cnf"
        for i, (sols, samples, b) in enumerate(cases):
            p.write_bytes(b.encode("latin-1"))
            queue = [(True, tuple(s)) for s in sols]

            class CSolver:
                def __init__(self, seed=None):
                    pass

                def add_clause(self, c):
                    pass

                def solve(self):
                    return queue.pop(0)

            class CMod:
                Solver = CSolver
            with patched(m["ug"], "pycmsgen", CMod):
                t2 = m["ug"].call_cmsgen_python(p, len(sols))
            note("chars-write-cmsgen-output", t2 == unhx(outs[2 * i]), ("c_cmsgen_format", sols))
            for j, t in enumerate((t2, unhx(outs[2 * i + 1]))):
                with patched(m["su"], "call_unigen", lambda *a, **k: t):
                    r = guard(lambda: m["su"].sample_uniform(3, CNF([[1]]), 1, 1, [], use_docker=False))
                o = outs2[2 * i + j]
                ok = (o == "none") if isinstance(r, tuple) else (o != "none" and [[list(x.assignment), x.frequency] for x in r] == parse_sexp(o)[0])
                note("chars-read-sampler-output", ok, ("c_parse_sampler", t))
            stats["sampler-texts"] += 2
            res.count(("chars-sampler", repr(sols), repr(samples)), nontrivial=len(sols) > 0)
    res.extra["chars_statistics"] = dict(sorted(stats.items()))

# --------------------------------------------------------------------------- run

def run(ctx, res):
    rng = ctx.rng
    m = mods()
    CNF, Var = m["cnf"].CNF, m["cnf"].Var
    q = ctx.quick
    res.rule = ("random clause lists (contiguous 1..n / gapped / 25-digit variables, empty clauses included), supports 0..25, "
                "0-2 cardinality requests; parser inputs = model-printed files plus files with injected noise lines; a case is "
                "non-trivial if it has at least one clause; distinct by input")
    mism = {}
    oc = Counter()      # how often each model outcome occurred (error branches are exercised too)

    def note(layer, ok, case):
        res.layer(layer, ok)
        if not ok:
            mism.setdefault(layer, []).append(case)

    # ---- T1 printers: __str__, as_dimacs_string, as_unigen_string, save_cnf ------------------
    cases, lines = [], []
    for _ in range(600 if q else 3000):
        cls = rand_cnf(rng)
        fvc = rng.choice([None, None, rng.randint(0, 40)])
        sup = rng.choice([None, 0, 1, 9, 10, 11, 20, 21, rng.randint(0, 25)])
        sv = sorted(rng.sample(range(1, 40), rng.randint(0, 23)))
        cases.append((cls, fvc, sup, sv))
        lines += [sexp([Atom("str"), cls]), sexp([Atom("dimacs"), cls, fvc]),
                  sexp([Atom("unigen"), cls, fvc, [Atom("len"), sup] if sup is not None else Atom("none")]),
                  sexp([Atom("unigen"), cls, fvc, [Atom("vars"), sv]]),
                  sexp([Atom("save_cnf"), cls, sup])]
    outs = ctx.model(lines)
    printed = []
    with scratch() as d:
        for i, (cls, fvc, sup, sv) in enumerate(cases):
            o = [model_file(x) for x in outs[5 * i:5 * i + 5]]
            c = CNF(cls)
            note("T1-str", tokenise(str(c)) == o[0] + [[]], ("str", cls))
            note("T1-dimacs", tokenise(c.as_dimacs_string(fvc)) == o[1], ("dimacs", cls, fvc))
            note("T1-unigen", tokenise(c.as_unigen_string(fvc, support_set_length=sup)) == o[2], ("unigen", cls, fvc, sup))
            note("T1-unigen", tokenise(c.as_unigen_string(fvc, sampled_variables=[Var(v) for v in sv])) == o[3],
                 ("unigen-vars", cls, fvc, sv))
            p = d / ("s%d.cnf" % i)
            m["util"].save_cnf(p, c, fvc, sup)
            note("T1-save_cnf", tokenise(p.read_text()) == o[4], ("save_cnf", cls, sup))
            p.unlink()
            if all(abs(l) < 10 ** 6 for cl in cls for l in cl) and (fvc or 0) < 10 ** 6:
                printed.append(o[4])   # (a header count of 10^25 would make `range(1, num_vars + 1)` explode)
            res.count(("print", repr(cls), fvc, sup), nontrivial=len(cls) > 0)
        res.sample({"cnf": cases[0][0], "support": cases[0][2], "model_save_cnf": outs[4][:160]})

    # ---- T2 combine_and_save_cnf ---------------------------------------------------------------
    cases, lines = [], []
    for _ in range(240 if q else 1200):
        cls = rand_cnf(rng, rng.choice(["contig", "gaps"]), maxcl=5)
        fresh = max([abs(l) for c in cls for l in c] + [rng.randint(1, 6)]) if rng.random() < 0.7 else rng.randint(1, 8)
        reqs = rand_reqs(rng, fresh)
        if rng.random() < 0.05:
            reqs.append(("EQ", 1, []))       # pop count of nothing: ValueError
        sup = rng.randint(0, 14)
        cases.append((cls, fresh, sup, reqs))
        lines.append(sexp([Atom("combine_save"), cls, fresh, sup, wire_reqs(reqs)]))
    outs = ctx.model(lines)
    with scratch() as d, quiet():
        for i, (cls, fresh, sup, reqs) in enumerate(cases):
            p = d / ("c%d.cnf" % i)
            r = guard(lambda: m["util"].combine_and_save_cnf(p, CNF(cls), fresh, sup, real_reqs(m, reqs)))
            mo = model_file(outs[i])
            if isinstance(r, tuple):
                ok = mo is None
            else:
                ok = mo is not None and tokenise(p.read_text()) == mo
                printed.append(mo)
            note("T2-combine_and_save_cnf", ok, ("combine_save", cls, fresh, sup, reqs))
            res.count(("combine", repr(cls), fresh, sup, repr(reqs)), nontrivial=len(reqs) > 0)
            if p.exists():
                p.unlink()

    # ---- T3 parsers on model-printed and noisy text ------------------------------------------
    files = [f for f in printed if f is not None][: (480 if q else 1800)]
    files += [noisy_file(rng, rng.choice(files)) for _ in range(1000 if q else 5000)]
    lines = []
    for f in files:
        w = wire_file(f)
        lines += [sexp([Atom("parse_cms"), w]), sexp([Atom("parse_unigen"), w])]
    outs12 = ctx.model(lines)
    # call_unigen_python asks pycryptosat whether the parsed clauses are satisfiable before it samples;
    # the solver is outside the model, its answer is an input of `sampler_input`
    lines, outs = [], []
    for i, f in enumerate(files):
        mo = outs12[2 * i + 1]
        lines.append(sexp([Atom("sampler_input"), solver_says_sat(parse_sexp(mo)[0]) if mo != "none" else True, wire_file(f)]))
    outs3 = ctx.model(lines)
    for i in range(len(files)):
        outs += [outs12[2 * i], outs12[2 * i + 1], outs3[i]]
    rec = Rec()
    with scratch() as d, quiet(), patched(m["cm"], "pycryptosat", fake_pycryptosat(rec)), \
            patched(m["ug"], "pyunigen", fake_pyunigen(rec)):
        p = d / "in.cnf"
        for i, f in enumerate(files):
            p.write_text(render(f, rng))
            # parser of _use_pycryptosat_library (clauses observed through the recording solver)
            rec.solutions = [(False, None)]
            rec.clauses = None
            r = guard(lambda: m["cm"]._use_pycryptosat_library(p))
            mo = outs[3 * i]
            oc["parse_cms:" + ("error" if mo == "none" else "ok")] += 1
            oc["parse_cnf_file:" + ("error" if outs[3 * i + 1] == "none" else "ok")] += 1
            oc["sampler_input:" + (outs[3 * i + 2] if outs[3 * i + 2] in ("none", "empty") else "ok")] += 1
            if isinstance(r, tuple):
                ok = mo == "none"
            else:
                pr = parse_sexp(mo)
                ok = mo != "none" and pr[1] == rec.clauses
            note("T3-parse-pycryptosat", ok, ("parse_cms", f))
            # parse_cnf_file
            r = guard(lambda: m["ug"].parse_cnf_file(p))
            mo = outs[3 * i + 1]
            if r[0] == "error":
                ok = mo == "none"
            else:
                pr = parse_sexp(mo)
                ok = mo != "none" and [pr[0], pr[1], pr[2]] == [r[0], r[1], r[2]]
            note("T3-parse_cnf_file", ok, ("parse_unigen", f))
            # what call_unigen_python hands to the sampler
            rec.clauses, rec.sampling, rec.samples = None, None, [[1]]
            r = guard(lambda: m["ug"].call_unigen_python(p, 1))
            mo = outs[3 * i + 2]
            if isinstance(r, tuple):
                ok = mo == "none"
            elif rec.sampling is None:
                ok = mo == "empty" and r == ""
            else:
                pr = parse_sexp(mo)
                ok = mo not in ("none", "empty") and pr[0] == rec.clauses and pr[1] == rec.sampling
            note("T3-sampler-input", ok, ("sampler_input", f))
            res.count(("parse", repr(f)), nontrivial=len(f) > 2)
    res.sample({"parser_input": files[-1][:6], "model_parse_cnf_file": outs[-2][:160]})

    # ---- T4 solver output: pycryptosat formatting, v-line parsing, the iterate step ------------
    cases, lines = [], []
    for _ in range(480 if q else 2400):
        n = rng.randint(0, 14)
        bools = [rng.random() < 0.5 for _ in range(n)]
        sup = rng.randint(0, n + 2)
        base = rng.choice([f for f in printed if f is not None])
        cases.append((bools, sup, base))
        lines += [sexp([Atom("cms_output"), [1 if b else 0 for b in bools]])]
    outs = ctx.model(lines)
    lines2 = []
    for (bools, sup, base), o in zip(cases, outs):
        mf = model_file(o)
        lines2 += [sexp([Atom("parse_v"), wire_file(mf)]), sexp([Atom("solve_result"), wire_file(mf), sup])]
    outs2 = ctx.model(lines2)
    lines3 = []
    for i, (bools, sup, base) in enumerate(cases):
        sol = parse_sexp(outs2[2 * i + 1])[0]
        lines3.append(sexp([Atom("update_file"), wire_file(base), sol]))
    outs3 = ctx.model(lines3)
    rec = Rec()
    with scratch() as d, quiet(), patched(m["cm"], "pycryptosat", fake_pycryptosat(rec)), \
            patched(m["cm"], "ensure_executable_available", no_binary):
        p = d / "in.cnf"
        for i, (bools, sup, base) in enumerate(cases):
            p.write_text(render(base))
            rec.solutions = [(True, tuple([None] + bools))]
            cp = m["cm"]._use_pycryptosat_library(p)
            note("T4-pycryptosat-output", tokenise(cp.stdout.decode()) == model_file(outs[i]) and cp.returncode == 10,
                 ("cms_output", bools))
            rec.solutions = [(True, tuple([None] + bools))]
            r = guard(lambda: m["cm"].cryptominisat_solve(p, False))
            note("T4-v-line-parse", r == parse_sexp(outs2[2 * i])[0], ("parse_v", bools))
            # one real iteration of compute_solutions: solve, cut to support, update the file
            rec.solutions = [(True, tuple([None] + bools))]
            r = guard(lambda: m["snu"].compute_solutions(p, sup, 1, None, False))
            want_sol = parse_sexp(outs2[2 * i + 1])[0]
            mo = model_file(outs3[i])
            ok = r == [want_sol] and mo is not None and tokenise(p.read_text()) == mo
            note("T4-iterate-step", ok, ("iterate", bools, sup, base))
            res.count(("solver-out", tuple(bools), sup), nontrivial=len(bools) > 0)
    # CLI-shaped output (several v lines, comments, junk)
    cases, lines = [], []
    for _ in range(320 if q else 1600):
        n = rng.randint(0, 12)
        lits = [(i + 1) * rng.choice([-1, 1]) for i in range(n)] + [0]
        f = [["s", "SATISFIABLE"]]
        while lits:
            k = rng.randint(1, 5)
            f.append(["v"] + [str(x) for x in lits[:k]])
            lits = lits[k:]
        for _ in range(rng.randint(0, 2)):
            f.insert(rng.randint(0, len(f)), rng.choice([["c", "note"], [], ["s", "x"], ["v"], ["v", "x"], ["v", "7", "y"]]))
        cases.append(f)
        lines.append(sexp([Atom("parse_v"), wire_file(f)]))
    outs = ctx.model(lines)
    for f, o in zip(cases, outs):
        text = render(f) + "\n"
        with patched(m["cm"], "call_cryptominisat", lambda *a, **k: (text, m["cm"].CryptoMiniSATReturnCode.Satisfiable)):
            r = guard(lambda: m["cm"].cryptominisat_solve(Path("/nonexistent"), False))
        ok = (o == "none") if isinstance(r, tuple) else (o != "none" and parse_sexp(o)[0] == r)
        note("T4-v-line-parse", ok, ("parse_v-cli", f))
        res.count(("cli-out", repr(f)))

    # ---- T5 sampler output: formatting by call_unigen_python / call_cmsgen_python, build_solution
    cases, lines = [], []
    base = [["p", "cnf", "6", "2"], ["c", "ind", "1", "2", "3", "0"], ["1", "2", "0"], ["-4", "5", "6", "0"], []]
    base_nss = [["p", "cnf", "4", "1"], [], ["1", "-2", "0"], []]
    for _ in range(240 if q else 1200):
        k = rng.randint(1, 4)
        samples = [[(i + 1) * rng.choice([-1, 1]) for i in range(rng.randint(0, 5))] for _ in range(k)]
        sols = [[rng.random() < 0.5 for _ in range(rng.randint(1, 8))] for _ in range(k)]
        b = rng.choice([base, base_nss])
        cases.append((samples, sols, b))
        ss = [1, 2, 3] if b is base else [1, 2, 3, 4]
        lines += [sexp([Atom("unigen_format"), samples]),
                  sexp([Atom("cmsgen_format"), ss, [[1 if x else 0 for x in s] for s in sols]])]
    outs = ctx.model(lines)
    lines2, texts = [], []
    rec = Rec()
    with scratch() as d, quiet(), patched(m["ug"], "pyunigen", fake_pyunigen(rec)):
        p = d / "in.cnf"
        for i, (samples, sols, b) in enumerate(cases):
            p.write_text(render(b))
            rec.samples = samples
            t1 = m["ug"].call_unigen_python(p, len(samples))
            note("T5-unigen-format", tokenise(t1) == model_file(outs[2 * i]), ("unigen_format", samples))
            queue = [(True, tuple(s)) for s in sols]

            class CSolver:
                def __init__(self, seed=None):
                    pass

                def add_clause(self, c):
                    pass

                def solve(self):
                    return queue.pop(0)

            class CMod:
                Solver = CSolver
            with patched(m["ug"], "pycmsgen", CMod):
                t2 = m["ug"].call_cmsgen_python(p, len(sols))
            note("T5-cmsgen-format", tokenise(t2) == model_file(outs[2 * i + 1]), ("cmsgen_format", sols))
            for t in (t1, t2):
                f = tokenise(t)
                for _ in range(rng.randint(0, 2)):
                    f.insert(rng.randint(0, len(f)), rng.choice([["c", "comment"], [], ["v"], ["v", "1", "x", "0:1"], ["v", "2", "0:y"]]))
                texts.append(f)
                lines2.append(sexp([Atom("parse_sampler"), wire_file(f)]))
    outs2 = ctx.model(lines2)
    with scratch(), quiet():
        for f, o in zip(texts, outs2):
            text = render(f)
            with patched(m["su"], "call_unigen", lambda *a, **k: text):
                r = guard(lambda: m["su"].sample_uniform(3, CNF([[1]]), 1, 1, [], use_docker=False))
            if isinstance(r, tuple):
                ok = o == "none"
            else:
                ok = o != "none" and [[list(s.assignment), s.frequency] for s in r] == parse_sexp(o)[0]
            note("T5-build_solution", ok, ("parse_sampler", f))
            res.count(("sampler-out", repr(f)))

    # ---- T6 update_file on arbitrary files (error paths included) -------------------------------
    cases, lines = [], []
    pool = [f for f in printed if f is not None]
    for _ in range(600 if q else 3000):
        f = [list(x) for x in rng.choice(pool)]
        r = rng.random()
        if r < 0.1:
            f = rng.choice([[[]], [[], []], [["p", "cnf", "3"]], [["p", "cnf", "3", "x"], ["1", "0"]], [[], ["p", "cnf", "2", "1", "9"], ["1", "0"], [], []]])
        elif r < 0.3:
            f = [[]] * rng.randint(0, 2) + f + [[]] * rng.randint(0, 2)
        sol = [(i + 1) * rng.choice([-1, 1]) for i in range(rng.randint(0, 8))]
        if rng.random() < 0.1:
            sol.append(0)
        cases.append((f, sol))
        lines.append(sexp([Atom("update_file"), wire_file(f), sol]))
    outs = ctx.model(lines)
    with scratch() as d:
        p = d / "u.cnf"
        for (f, sol), o in zip(cases, outs):
            p.write_text(render(f, rng))
            r = guard(lambda: m["snu"].update_file(p, list(sol)))
            mo = model_file(o)
            oc["update_file:" + ("error" if mo is None else "ok")] += 1
            ok = (mo is None) if isinstance(r, tuple) else (mo is not None and tokenise(p.read_text()) == mo)
            note("T6-update_file", ok, ("update_file", f, sol))
            res.count(("update", repr(f), tuple(sol)), nontrivial=len(sol) > 0)
    res.sample({"update_file_input": cases[0][0][:4], "solution": cases[0][1], "model_out": outs[0][:160]})

    # ---- chars: the character level, byte for byte ------------------------------------------------
    chars_layer(ctx, res, m, rng, note, oc)

    # ---- search: the property itself on the real code ------------------------------------------
    found = {}

    def hit(sig, what, replay):
        if sig not in found:
            found[sig] = (what, replay)

    for _ in range(480 if q else 3000):
        style = rng.choice(["contig", "contig", "gaps", "empty"])
        cls = rand_cnf(rng, "contig" if style == "empty" else style, allow_empty=False, maxcl=6)
        if style == "empty":
            cls.insert(rng.randint(0, len(cls)), [])
        used = max([abs(l) for c in cls for l in c] + [0])
        fresh = max(used, 1) if style != "gaps" else rng.randint(1, max(used, 1))
        if style == "contig" and used > 0:
            cls.append(list(range(1, used + 1)))
        reqs = rand_reqs(rng, max(fresh, 1), 4) if style == "contig" else []
        sup = rng.randint(0, max(1, min(fresh, 12)))
        for sig, detail in prop_saved_text(m, cls, fresh, sup, reqs):
            hit(sig, "combine_and_save_cnf(CNF(%r), fresh=%d, support=%d, requests=%r): %s" % (cls, fresh, sup, reqs, detail),
                {"kind": "saved_text", "sig": sig, "cnf": cls, "fresh": fresh, "support": sup, "requests": [list(r) for r in reqs]})
        res.count(("search-text", repr(cls), fresh, sup, repr(reqs)))
    for _ in range(240 if q else 1200):
        sup = rng.randint(1, 6)
        n = sup + rng.randint(0, 3)
        cls = [[rand_lit(rng, range(1, n + 1)) for _ in range(rng.randint(1, 3))] for _ in range(rng.randint(1, 6))] + \
              [list(range(1, n + 1))]
        prev = [(i + 1) * rng.choice([-1, 1]) for i in range(sup)]
        bad = prop_blocking(m, cls, sup, prev)
        if bad:
            hit("blocking:wrong", "update_file after solution %r on CNF(%r): %s" % (prev, cls, bad),
                {"kind": "blocking", "cnf": cls, "support": sup, "previous": prev})
        res.count(("search-block", repr(cls), tuple(prev)))
    for _ in range(100 if q else 500):
        sup = rng.randint(1, 5)
        n = sup + rng.randint(0, 3)
        cls = [[rand_lit(rng, range(1, n + 1)) for _ in range(rng.randint(1, 3))] for _ in range(rng.randint(1, 6))] + \
              [list(range(1, n + 1))]
        bad = prop_loop(m, cls, n, sup)
        if bad:
            hit("loop:wrong", "compute_solutions on CNF(%r), support=%d: %s" % (cls, sup, bad),
                {"kind": "loop", "cnf": cls, "nvars": n, "support": sup})
        for use_cmsgen in (False, True):
            bad = prop_sampler(m, cls, n, sup, use_cmsgen)
            if bad:
                hit("sampler:wrong", "%s on CNF(%r), support=%d: %s" % ("pycmsgen" if use_cmsgen else "pyunigen", cls, sup, bad),
                    {"kind": "sampler", "cnf": cls, "nvars": n, "support": sup, "cmsgen": use_cmsgen})
        res.count(("search-loop", repr(cls), sup))
    # support = 0: the blocking clause of the empty solution is the empty clause `0`
    for cls in ([[1, 2]], [[1], [-1, 2]], [[-1, -2], [1, 2, 3]]):
        bad = prop_loop(m, cls, 3, 0)
        if bad:
            hit("loop:empty-solution-not-blocked", "compute_solutions on CNF(%r) with support=0: %s (update_file writes the "
                "empty clause `0`, which the parser drops)" % (cls, bad), {"kind": "loop", "cnf": cls, "nvars": 3, "support": 0})
        res.count(("search-loop0", repr(cls)))
    for _ in range(160 if q else 800):
        n = rng.randint(0, 10)
        bools = [rng.random() < 0.5 for _ in range(n)]
        sup = rng.randint(0, n)
        bad = prop_roundtrip(m, bools, sup)
        if bad:
            hit("roundtrip:wrong", "solver model %r: %s" % (bools, bad), {"kind": "roundtrip", "bools": bools, "support": sup})
        res.count(("search-roundtrip", tuple(bools), sup))
    res.extra["search_space"] = ("combine_and_save_cnf re-read with an independent stream DIMACS reader (contiguous, gapped and "
                                 "empty-clause formulas); blocking clause vs all assignments of <=6 support variables; real "
                                 "pycryptosat iterate loop and real pyunigen/pycmsgen vs brute-force projected models (<=8 variables)")
    res.extra["exhaustive"] = False
    res.extra["model_outcomes"] = dict(sorted(oc.items()))
    for sig, (what, replay) in sorted(found.items()):
        res.violations.append(Violation(sig, what, replay))
    if found:
        res.extra["failing_sigs"] = sorted(found)
    broken = {k: v for k, v in mism.items() if v}
    if broken:
        k = sorted(broken)[0]
        res.violations.append(Violation(
            "corr:" + k, "model Text/* and the real text I/O disagree on layer(s) %s, e.g. %r" % (
                ", ".join("%s (%d)" % (a, len(b)) for a, b in sorted(broken.items())), broken[k][0]),
            {"layers": sorted(broken), "theorems": ["C27_parse_print", "C27_header_vars", "C27_solver_output_roundtrip",
                                                    "C27_update_file_blocks", "C27_chars_layer", "C27_text_lexes_to_tokens",
                                                    "C27_parse_print_chars", "C27_header_vars_chars",
                                                    "C27_solver_output_roundtrip_chars", "C27_update_file_chars",
                                                    "C27_update_file_blocks_chars", "C27_sampler_output_roundtrip_chars"], "first_mismatch": repr(broken[k][0])},
            failing_input=False))


def replay(ctx, data):
    m = mods()
    k = data["kind"]
    if k == "saved_text":
        reqs = [tuple(r) for r in data["requests"]]
        return any(sig == data["sig"] for sig, _ in prop_saved_text(m, data["cnf"], data["fresh"], data["support"], reqs))
    if k == "blocking":
        return prop_blocking(m, data["cnf"], data["support"], data["previous"]) is not None
    if k == "loop":
        return prop_loop(m, data["cnf"], data["nvars"], data["support"]) is not None
    if k == "sampler":
        return prop_sampler(m, data["cnf"], data["nvars"], data["support"], data["cmsgen"]) is not None
    if k == "roundtrip":
        return prop_roundtrip(m, data["bools"], data["support"]) is not None
    return False
