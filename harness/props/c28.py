"""C28 - ILP export accepts the same assignments as the SAT encoding.

Theorems: coq/theories/Properties/C28.v (about Text/Opb.v).
Correspondence: the real `CNF.as_opb_string`, `combine_and_save_opb` and
`sample_ilp.update_file` write real files into a scratch directory under /tmp
(removed afterwards); tokenised text vs. the token lines of the extracted
model; the model's pseudo-Boolean evaluator vs. the harness's own on the real
text.  Gurobi is absent: the property is about the text.
Layer `chars` (Text/TextChars.v): the model's OPB TEXT vs the real file bytes,
byte for byte (as_opb_string, combine_and_save_opb on a fresh file, every
update_file append), and the model's character-level evaluator on the real
bytes vs the harness's independent evaluator.
Search: for every assignment of <= 6 variables the real OPB text, evaluated by
an independent PB evaluator written here (constraints split at ';'), must
accept exactly when (a) the clauses hold and every request's count stands in
its relation to k (brute force), and (b) the SAT encoding produced by the real
`combine_cnf_with_requests` is satisfiable under that assignment (pycryptosat
with assumptions).  The constraint appended between iterations must reject
exactly the previous solution.
"""
import importlib
import itertools
import re

from common import Violation, sexp, Atom, parse_sexp
from props.c27 import scratch, quiet, tokenise, model_file, wire_file, real_reqs, wire_reqs, rand_lit, hx, unhx

TITLE = "OPB export for the ILP sampler"
LEVEL = "proof"
DOMAINS = ['Text']

REL = {"EQ": lambda c, k: c == k, "LT": lambda c, k: c < k, "GT": lambda c, k: c > k}


def mods():
    m = {}
    m["cnf"] = importlib.import_module("sweetpea._internal.core.cnf")
    m["util"] = importlib.import_module("sweetpea._internal.core.generate.utility")
    m["ilp"] = importlib.import_module("sweetpea._internal.core.generate.sample_ilp")
    return m


# --------------------------------------------------------------------------- independent PB evaluator

TERM = re.compile(r"^[+-]?\d+$")
VAR = re.compile(r"^[vx](\d+)$")


def opb_constraints(text):
    """OPB text -> [(terms [(coef, var)], op, rhs)]; constraints end at ';',
    lines starting with '*' are comments."""
    toks = []
    for ln in text.split("\n"):
        if ln.strip().startswith("*"):
            continue
        toks += ln.split()
    out, cur = [], []
    for t in toks:
        if t == ";":
            out.append(cur)
            cur = []
        else:
            cur.append(t)
    if cur:
        raise ValueError("unterminated constraint %r" % cur)
    res = []
    for c in out:
        ops = [i for i, t in enumerate(c) if t in (">=", "<=", "=")]
        if len(ops) != 1 or ops[0] != len(c) - 2 or ops[0] % 2 != 0:
            raise ValueError("malformed constraint %r" % c)
        terms = []
        for i in range(0, ops[0], 2):
            if not TERM.match(c[i]) or not VAR.match(c[i + 1]):
                raise ValueError("malformed term in %r" % c)
            terms.append((int(c[i]), int(VAR.match(c[i + 1]).group(1))))
        res.append((terms, c[ops[0]], int(c[-1])))
    return res


def pb_holds(con, true_vars):
    terms, op, rhs = con
    lhs = sum(c for c, v in terms if v in true_vars)
    return lhs >= rhs if op == ">=" else lhs <= rhs if op == "<=" else lhs == rhs


def lit_holds(l, tv):
    return (l in tv) if l > 0 else (-l not in tv)


def spec_holds(cls, reqs, tv):
    return all(any(lit_holds(l, tv) for l in c) for c in cls) and \
        all(REL[kd](sum(1 for v in vs if v in tv), k) for kd, k, vs in reqs)


def real_opb_text(m, cls, support, reqs):
    with scratch() as d, quiet():
        p = d / "f.opb"
        m["util"].combine_and_save_opb(p, m["cnf"].CNF(cls), support, real_reqs(m, reqs))
        return p.read_text()


def sat_encoding_accepts(m, cls, n, reqs):
    """assignment of 1..n (as frozenset of true vars) -> does the real SAT
    encoding of clauses + requests have a model extending it?"""
    import pycryptosat
    final = m["util"].combine_cnf_with_requests(m["cnf"].CNF(cls), n, n, real_reqs(m, reqs)).as_list_of_list_of_ints()
    s = pycryptosat.Solver()
    empty = False
    for c in final:
        if not c:
            empty = True
        else:
            s.add_clause(c)
    for v in range(1, n + 1):
        s.add_clause([v, -v])

    def accepts(tv):
        if empty:
            return False
        ok, _ = s.solve([v if v in tv else -v for v in range(1, n + 1)])
        return bool(ok)
    return accepts


def prop_opb(m, cls, n, reqs, only=None):
    try:
        return _prop_opb(m, cls, n, reqs, only)
    except Exception as e:  # noqa
        return ("opb:raises", {"problem": "the real code / the OPB reader raised %s: %s" % (type(e).__name__, str(e)[:120])})


def _prop_opb(m, cls, n, reqs, only=None):
    """Returns None or (sig, detail) for the first assignment on which the real
    OPB text disagrees with the specification / the SAT encoding."""
    text = real_opb_text(m, cls, n, reqs)
    cons = opb_constraints(text)
    if len(cons) != len(cls) + len(reqs):
        return ("opb:shape", {"problem": "number of constraints", "text": text})
    accepts = sat_encoding_accepts(m, cls, n, reqs)
    rcls = list(reversed(cls))
    for bits in itertools.product([False, True], repeat=n):
        tv = frozenset(i + 1 for i in range(n) if bits[i])
        if only is not None and sorted(tv) != sorted(only):
            continue
        got = all(pb_holds(c, tv) for c in cons)
        want = spec_holds(cls, reqs, tv)
        enc = accepts(tv)
        if got != want or got != enc:
            # attribute the disagreement to one constraint
            sig, line = "opb:whole", None
            for i, c in enumerate(cons):
                if i < len(cls):
                    w = any(lit_holds(l, tv) for l in rcls[i])
                    kind = "clause"
                else:
                    kd, k, vs = reqs[i - len(cls)]
                    w = REL[kd](sum(1 for v in vs if v in tv), k)
                    kind = "request:" + kd
                if pb_holds(c, tv) != w:
                    sig, line = "opb:" + kind, i
                    break
            if got == want and got != enc:
                sig = "sat-encoding-differs"
            return (sig, {"true_variables": sorted(tv), "opb_accepts": got, "specification_accepts": want,
                          "sat_encoding_accepts": enc, "constraint_index": line,
                          "constraint_text": [t.strip() for t in text.split("\n") if t.strip()][line] if line is not None else None})
    return None


def prop_block(m, cls, n, reqs, prevs):
    try:
        return _prop_block(m, cls, n, reqs, prevs)
    except Exception as e:  # noqa
        return {"problem": "the real code / the OPB reader raised %s: %s" % (type(e).__name__, str(e)[:120])}


def _prop_block(m, cls, n, reqs, prevs):
    """After update_file for each previous solution the old constraints are
    unchanged and each new one rejects exactly that solution."""
    with scratch() as d, quiet():
        p = d / "f.opb"
        m["util"].combine_and_save_opb(p, m["cnf"].CNF(cls), n, real_reqs(m, reqs))
        before = opb_constraints(p.read_text())
        for prev in prevs:
            m["ilp"].update_file(p, list(prev))
        after = opb_constraints(p.read_text())
    if after[:len(before)] != before or len(after) != len(before) + len(prevs):
        return {"problem": "old constraints changed or wrong number added"}
    for prev, con in zip(prevs, after[len(before):]):
        sup = len(prev)
        prevtv = frozenset(l for l in prev if l > 0)
        for bits in itertools.product([False, True], repeat=sup):
            tv = frozenset(i + 1 for i in range(sup) if bits[i])
            if pb_holds(con, tv) != (tv != prevtv):
                return {"problem": "blocking constraint wrong", "previous": list(prev), "true_variables": sorted(tv),
                        "constraint": repr(con)}
    return None


# --------------------------------------------------------------------------- run

def rand_case(rng, nmax=6):
    n = rng.randint(1, nmax)
    cls = [[rand_lit(rng, range(1, n + 1)) for _ in range(rng.randint(1, 3))] for _ in range(rng.randint(0, 5))]
    reqs = []
    for _ in range(rng.randint(0, 3)):
        w = rng.randint(1, n)
        reqs.append((rng.choice(("EQ", "LT", "GT")), rng.randint(0, w + 1), rng.sample(range(1, n + 1), w)))
    return cls, n, reqs


def run(ctx, res):
    rng = ctx.rng
    m = mods()
    CNF = m["cnf"].CNF
    q = ctx.quick
    res.rule = ("random clause lists (empty clauses, 25-digit variables included) with 0-3 requests (EQ/LT/GT, k in 0..n+1, "
                "distinct variables) and 1-3 previous solutions; non-trivial = at least one request or clause; distinct by input")
    mism = {}

    def note(layer, ok, case):
        res.layer(layer, ok)
        if not ok:
            mism.setdefault(layer, []).append(case)

    # ---- O1/O2/O3 text: as_opb_string, combine_and_save_opb, update_file ------------------------
    cases, lines = [], []
    for _ in range(800 if q else 4000):
        style = rng.random()
        if style < 0.8:
            cls, n, reqs = rand_case(rng, 9)
        else:
            big = [rng.randint(1, 10 ** 25) for _ in range(3)] + [1, 2]
            cls = [[rand_lit(rng, big) for _ in range(rng.randint(0, 3))] for _ in range(rng.randint(0, 4))]
            n = 5
            reqs = [(rng.choice(("EQ", "LT", "GT")), rng.randint(0, 10 ** 20), rng.sample(big, rng.randint(0, 3)))]
        if rng.random() < 0.1:
            cls.insert(rng.randint(0, len(cls)), [])
        prevs = [[(i + 1) * rng.choice([-1, 1]) for i in range(rng.randint(0, 7))] for _ in range(rng.randint(1, 3))]
        cases.append((cls, n, reqs, prevs))
        lines += [sexp([Atom("opb_lines"), cls]), sexp([Atom("opb"), cls, wire_reqs(reqs)])]
    outs = ctx.model(lines)
    lines2 = []
    with scratch() as d, quiet():
        for i, (cls, n, reqs, prevs) in enumerate(cases):
            note("O1-as_opb_string", tokenise(CNF(cls).as_opb_string()) == model_file(outs[2 * i]), ("opb_lines", cls))
            p = d / ("o%d.opb" % i)
            m["util"].combine_and_save_opb(p, CNF(cls), n, real_reqs(m, reqs))
            mo = model_file(outs[2 * i + 1])
            note("O2-combine_and_save_opb", tokenise(p.read_text()) == mo, ("opb", cls, reqs))
            cur = mo
            for prev in prevs:
                m["ilp"].update_file(p, list(prev))
                lines2.append((sexp([Atom("ilp_update"), wire_file(cur), prev]), tokenise(p.read_text()), (cls, reqs, prev)))
                cur = tokenise(p.read_text())
            p.unlink()
            res.count(("text", repr(cls), repr(reqs)), nontrivial=bool(cls or reqs))
    outs2 = ctx.model([x[0] for x in lines2])
    for (ln, real, case), o in zip(lines2, outs2):
        note("O3-ilp-update_file", model_file(o) == real, ("ilp_update",) + case)
    res.sample({"cnf": cases[0][0], "requests": [list(r) for r in cases[0][2]], "model_opb": outs[1][:200]})

    # ---- O4 the model's PB evaluator agrees with the harness's on the real text -----------------
    lines, wants = [], []
    for cls, n, reqs, prevs in cases[: (320 if q else 1200)]:
        if any(abs(l) > 50 for c in cls for l in c):
            continue
        text = real_opb_text(m, cls, n, reqs)
        cons = opb_constraints(text)
        for _ in range(4):
            tv = [v for v in range(1, 10) if rng.random() < 0.5]
            lines.append(sexp([Atom("pb_file_sat"), tv, wire_file(tokenise(text))]))
            wants.append(all(pb_holds(c, frozenset(tv)) for c in cons))
    for o, w in zip(ctx.model(lines), wants):
        note("O4-pb-evaluator", o == ("true" if w else "false"), ("pb_file_sat", o, w))
        res.count()

    # ---- chars: the OPB text byte for byte -----------------------------------------------------------
    lines = []
    sub = cases[: (500 if q else 2500)]
    for cls, n, reqs, prevs in sub:
        lines += [sexp([Atom("c_opb_lines"), cls]), sexp([Atom("c_opb"), cls, wire_reqs(reqs)])]
    outs = ctx.model(lines)
    upd, evals, nbytes = [], [], 0
    with scratch() as d, quiet():
        for i, (cls, n, reqs, prevs) in enumerate(sub):
            note("chars-write-as_opb_string", CNF(cls).as_opb_string() == unhx(outs[2 * i]), ("c_opb_lines", cls))
            p = d / ("o%d.opb" % i)
            m["util"].combine_and_save_opb(p, CNF(cls), n, real_reqs(m, reqs))
            raw = p.read_bytes()
            nbytes += len(raw)
            note("chars-write-combine_and_save_opb", raw == (unhx(outs[2 * i + 1]) or "").encode("latin-1"), ("c_opb", cls, reqs))
            if all(abs(l) <= 50 for c in cls for l in c) and i < (250 if q else 1000):
                evals.append(raw.decode("latin-1"))
            for prev in prevs:
                before = p.read_bytes().decode("latin-1")
                m["ilp"].update_file(p, list(prev))
                upd.append((before, prev, p.read_bytes()))
            if all(abs(l) <= 50 for c in cls for l in c) and i < (250 if q else 1000):
                evals.append(p.read_bytes().decode("latin-1"))
            p.unlink()
    for (before, prev, after), o in zip(upd, ctx.model([sexp([Atom("c_ilp_update"), hx(b), pv]) for b, pv, _ in upd])):
        note("chars-write-ilp-update_file", after == (unhx(o) or "").encode("latin-1"), ("c_ilp_update", before, prev))
    lines, wants = [], []
    for text in evals:
        cons = opb_constraints(text)
        for _ in range(3):
            tv = [v for v in range(1, 10) if rng.random() < 0.5]
            lines.append(sexp([Atom("c_pb_file_sat"), tv, hx(text)]))
            wants.append(all(pb_holds(c, frozenset(tv)) for c in cons))
    for o, w in zip(ctx.model(lines), wants):
        note("chars-read-pb-evaluator", o == ("true" if w else "false"), ("c_pb_file_sat", o, w))
    res.extra["chars_statistics"] = {"opb-files": len(sub), "opb-bytes": nbytes, "update-appends": len(upd),
                                     "evaluated-texts": len(evals), "evaluations": len(wants)}

    # ---- search -------------------------------------------------------------------------------
    found = {}

    def hit(sig, what, replay):
        if sig not in found:
            found[sig] = (what, replay)

    def search_case(cls, n, reqs):
        bad = prop_opb(m, cls, n, reqs)
        res.count(("search", repr(cls), n, repr(reqs)))
        if bad:
            sig, detail = bad
            hit(sig, "clauses %r, requests %r over variables 1..%d, true variables %r: OPB text %s, specification %s, "
                     "SAT encoding %s; offending constraint %r" % (
                         cls, [list(r) for r in reqs], n, detail.get("true_variables"),
                         "accepts" if detail.get("opb_accepts") else "rejects",
                         "accepts" if detail.get("specification_accepts") else "rejects",
                         "accepts" if detail.get("sat_encoding_accepts") else "rejects", detail.get("constraint_text")),
                {"kind": "opb", "cnf": cls, "nvars": n, "requests": [list(r) for r in reqs],
                 "true_variables": detail.get("true_variables")})

    # every single request on 1..n, smallest first (so the reported input is minimal)
    for n in range(1, (5 if q else 6) + 1):
        for kd in ("EQ", "LT", "GT"):
            for k in range(0, n + 2):
                search_case([], n, [(kd, k, list(range(1, n + 1)))])
    for _ in range(600 if q else 4000):
        search_case(*rand_case(rng))
    for _ in range(240 if q else 1200):
        cls, n, reqs = rand_case(rng)
        prevs = [[(i + 1) * rng.choice([-1, 1]) for i in range(rng.randint(1, 6))] for _ in range(rng.randint(1, 3))]
        bad = prop_block(m, cls, n, reqs, prevs)
        res.count(("search-block", repr(cls), repr(prevs)))
        if bad:
            hit("opb:block", "update_file after %r: %s" % (prevs, bad),
                {"kind": "block", "cnf": cls, "nvars": n, "requests": [list(r) for r in reqs], "previous": prevs})
    res.extra["search_space"] = ("all 2^n assignments, n<=6: every single request (kind, k<=n+1) on 1..n plus random clause sets "
                                 "with up to 3 requests; OPB text evaluated independently vs brute-force semantics and vs the "
                                 "projected satisfiability of the real SAT encoding; blocking constraints vs all assignments "
                                 "of <=6 support variables")
    res.extra["exhaustive"] = False
    for sig, (what, replay) in sorted(found.items()):
        res.violations.append(Violation(sig, what, replay))
    if found:
        res.extra["failing_sigs"] = sorted(found)
    broken = {k: v for k, v in mism.items() if v}
    if broken:
        k = sorted(broken)[0]
        res.violations.append(Violation(
            "corr:" + k, "model Text/Opb.v and the real OPB export disagree on layer(s) %s, e.g. %r" % (
                ", ".join("%s (%d)" % (a, len(b)) for a, b in sorted(broken.items())), broken[k][0]),
            {"layers": sorted(broken), "theorems": ["C28_opb_clause_equiv", "C28_opb_request_equiv", "C28_opb_block_excludes_exactly", "C28_opb_file_chars",
                           "C28_opb_block_chars"],
             "first_mismatch": repr(broken[k][0])}, failing_input=False))


def replay(ctx, data):
    m = mods()
    reqs = [tuple(r) for r in data["requests"]]
    if data["kind"] == "opb":
        return prop_opb(m, data["cnf"], data["nvars"], reqs, only=data.get("true_variables")) is not None
    if data["kind"] == "block":
        return prop_block(m, data["cnf"], data["nvars"], reqs, data["previous"]) is not None
    return False
