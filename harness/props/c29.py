"""C29 - SMGen either refuses a design or returns valid sequences.

Theorems: coq/theories/Properties/C29.v (about SM/SMGate.v).
Model: SM/SMGate.v = the decision logic of sampling_strategy/smgen.py and the structural
checks of scattered_map_core.py that run before the search (which designs are refused
with the unsupported-feature error - a bare `Exception` raised by `_cexit` - which crash
with another exception, and for accepted designs: weight duplication, M, the preamble
row, the maximum_trials truncation, hence the length of every returned column, and the
constraints handed to the search core: none).

History: until /repo commit cac238c the support test of SMGen.sample refused AtMostKInARow /
AtLeastKInARow / ExactlyK / Exclude / Pin only; ExactlyKInARow, ExactlyKMultipleInARow, Sequential
and LatinSquare passed and were silently ignored (findings smgen:ignored:<Kind>, found by the
search below, witnesses replayed on the real code).  cac238c lists the four classes in the
isinstance chain; the model follows (SMGate.refused_kind) and this harness now expects the
documented refusal "<Kind> constraints are not supported by SMGen." for all nine user constraint
classes (hand programs refused-<Kind>, former-witness-<Kind>, direct-<Kind>); the search still
judges every returned sequence against every constraint of the design, so a regression of the
repair is reported as smgen:ignored:<Kind> again.  Not covered by the repair: the internal Sustain
constraint (hand program nest-single-crossing-sustain, C29_gate_sustain_refuted, open finding
smgen:length:Nest).

LEVEL note: proof for the gate and the sequence length; the randomised backtracker
(1250 lines, module-global state) is NOT modelled: every sequence it returns is judged
per run by the reference oracle (translation validation).  The quantifier over timer
interleavings is covered only partially: the threading.Timer callback runs in another
thread and no executable Gallina model exhibits that; the harness runs the search with
the timer firing early (it cannot stop the search: the callback is invoked without its
two arguments and dies in its own thread) and a wall-clock limit of its own.

Correspondence (layer kinds): the constraint classes defined by sweetpea._internal.constraint are
exactly the ones the model knows (none reads as Other), and SMGate's classification
(refused / realised / user) of each.  (layer refusal-documented): each hand-written design with a
user constraint class is refused by the real code with the documented message naming that class.
(layer gate-total-instance): what the model reports as ignored on an accepted design is Sustain /
unknown only (C29_gate_total).
Correspondence (layer gate): on generated programs of every shape and constraint kind
plus derived-of-derived / Window-class / multi-argument-transition variants, the outcome
of `ir.synthesize(block, 2, "SMGen")` - documented refusal (which message), other
exception, or sequences with their column length - vs. SMGate.gate on a summary read
from the real block (attributes only).
Search (the property itself): every sequence SMGen returns (several seeds of `random` and
`numpy.random` drawn from ctx.rng) is judged by the reference oracle
designrun.oracle_valid(docsem.doc_sem(program), ...) including its length; a violated
component names the finding: smgen:length:<Shape>, smgen:ignored:<Kind>,
smgen:crossing:<Shape>, smgen:derived:<Shape> (a length signature carries the family name, or
":length-theorem-applies" when the hypotheses of C29_sm_length hold for the block); an exception other than the documented
refusal after the gate was passed is reported as smgen:raises:<Exc>:<function>.
"""
import copy
import json
import random as pyrandom
import signal
import threading

import docsem
import designrun
import gen_design
import ir
from common import Violation

TITLE = "SMGen refuses or returns valid sequences"
LEVEL = "proof (gate, length) + translation_validation (search outputs); timer interleavings partial"
DOMAINS = ['SM', 'Design']

# the isinstance chain of SMGen.sample as of /repo commit cac238c (the last four were added by it)
REFUSED = ("AtMostKInARow", "AtLeastKInARow", "ExactlyK", "Exclude", "Pin",
           "ExactlyKInARow", "ExactlyKMultipleInARow", "LatinSquare", "Sequential")
REALISED = ("Cross", "Consistency", "Derivation", "Reify", "MinimumTrials", "ContinuousConstraint")
REFUSAL_MESSAGE = "%s constraints are not supported by SMGen."


# --------------------------------------------------------------------------- running SMGen under control

class SynthTimeout(Exception):
    pass


_patched = False


def patch_smgen():
    """The search core arms a 60 s threading.Timer per call (non-daemon: the interpreter would wait
    for it at exit).  Let it fire after 10 ms instead; its callback cannot interrupt the search."""
    global _patched
    if _patched:
        return
    import sweetpea._internal.sampling_strategy.smgen as smgen
    import sweetpea._internal.sampling_strategy.scattered_map_core as core
    orig = core.reset_state

    def reset_state():
        orig()
        core.EXEC_TH = 0.01
    smgen.reset_state = reset_state
    threading.excepthook = lambda args: None
    _patched = True


def run_smgen(block, n, seed, limit):
    """("ok", seqs) | ("error", ExcName, msg), with random / numpy.random seeded and a wall-clock limit."""
    import numpy
    patch_smgen()
    pyrandom.seed(seed)
    numpy.random.seed(seed % (2 ** 32))

    def handler(signum, frame):
        raise SynthTimeout("time limit")
    old = signal.signal(signal.SIGALRM, handler)
    signal.setitimer(signal.ITIMER_REAL, limit)
    try:
        return synthesize_sm(block, n)
    finally:
        signal.setitimer(signal.ITIMER_REAL, 0)
        signal.signal(signal.SIGALRM, old)


def synthesize_sm(block, n):
    """As ir.synthesize(block, n, "SMGen"), but an error also tells where it was raised:
    ("error", ExcName, message, "func:line" of the innermost frame, in_search?)."""
    import traceback
    import sweetpea as sp
    from sweetpea._internal.sampling_strategy.smgen import SMGen
    try:
        with ir.quiet():
            r = sp.synthesize_trials(block, n, SMGen)
        return ("ok", r)
    except Exception as e:  # noqa
        tb = traceback.extract_tb(e.__traceback__)
        names = [f.name for f in tb]
        inner = "%s:%d" % (tb[-1].name, tb[-1].lineno) if tb else "?"
        return ("error", type(e).__name__, str(e)[:300], inner, "sm_backtrack_random" in names)


# --------------------------------------------------------------------------- summary of the real block

def summary_of(block):
    from sweetpea._internal.cross_block import MultiCrossBlockRepeat
    from sweetpea._internal.primitive import DerivedLevel, Transition, WithinTrial, ContinuousFactor
    A = docsem._A
    design = list(block.orig_design)
    names = [f.name for f in design]
    facs = []
    for f in design:
        if isinstance(f, ContinuousFactor):
            raise ValueError("continuous factor")
        l0 = f.levels[0]
        derived = isinstance(l0, DerivedLevel)
        if derived:
            w = l0.window
            wk = "transition" if isinstance(w, Transition) else ("within" if isinstance(w, WithinTrial) else "other")
            args = [(names.index(a.name) if a.name in names else None) for a in w.factors]
        else:
            wk, args = "within", []
        facs.append([derived, A(wk), args, [l._weight for l in f.levels]])
    ncross = len(block.crossings)
    cw = block.crossing_weight() if ncross == 1 else 0
    crossing = []
    if block.orig_crossings:
        crossing = [[i for i, g in enumerate(design) if g is f][0] for f in block.orig_crossings[0]]
    kinds = [A(type(c).__name__) for c in block.constraints]
    return [isinstance(block, MultiCrossBlockRepeat), ncross, kinds, cw, block.trials_per_sample(), facs, crossing]


CORE_REFUSALS = ("Invalid predicate functions for transition", "Invalid WithinTrial transition", "Experiment not solvable",
                 "Invalid derived constraint", "Invalid cross", "Invalid input", "invald", "invalid")


def classify_real(block, r):
    """Canonical outcome string of a real SMGen call (comparable with the model's gate output)."""
    design = list(block.orig_design)
    if r[0] == "ok":
        lens = sorted(set(len(v) for s in r[1] for v in s.values()))
        return "ok %s" % " ".join(str(x) for x in lens)
    exc, msg = r[1], r[2]
    if exc == "SynthTimeout":
        return "timeout"
    if exc == "Exception":
        if msg.startswith("Multiple-crossing blocks are not supported by SMGen"):
            return "refuse multicross"
        for k in ("AtMostKInARow", "AtLeastKInARow", "ExactlyK", "Exclude", "Pin", "ExactlyKInARow", "Sequential", "LatinSquare",
                  "ExactlyKMultipleInARow", "ContinuousConstraint"):
            if msg == "%s constraints are not supported by SMGen." % k:
                return "refuse constraint " + k
        if msg.startswith("Unsupported level "):
            name = msg[len("Unsupported level "):]
            idx = [i for i, f in enumerate(design) if str(f.levels[0].name) == name]
            return "refuse level %s" % (idx[0] if idx else "?")
        if msg.startswith("Unsupported Factor. Transition with multiple arguments: "):
            name = msg.split(": ", 1)[1]
            idx = [i for i, f in enumerate(design) if str(f.name) == name]
            return "refuse transargs %s" % (idx[0] if idx else "?")
        if msg.startswith("Invalid transition: "):
            name = msg.split(": ", 1)[1]
            idx = [i for i, f in enumerate(design) if str(f.name) == name]
            return "refuse transoftrans %s" % (idx[0] if idx else "?")
        for c in CORE_REFUSALS:
            if msg.startswith(c):
                return "core-refuse " + c
        return "refuse other " + msg[:60]
    inner = r[3] if len(r) > 3 else "?"
    in_search = r[4] if len(r) > 4 else False
    if in_search:
        return "core-crash %s %s" % (exc, inner)
    if inner.split(":")[0] in ("add_implied_levels", "synthesize_trials", "sample_continuous"):
        # raised by main.synthesize_trials after SMGen returned its sequences
        return "post-crash %s %s" % (exc, inner.split(":")[0])
    if exc == "AssertionError" and inner.startswith("sample:"):
        return "crash assert"
    if exc == "KeyError" and inner.startswith("sample:"):
        return "crash keyerror"
    if exc == "AttributeError" and "cell_index" in msg:
        return "crash attribute"
    return "crash other %s %s %s" % (exc, inner, msg[:60])


def gate_agrees(model, real):
    """model: output line of (gate ...); real: classify_real."""
    m = model.split(" ")
    if m[0] == "refuse":
        return model == real
    if m[0] == "crash":
        return real.startswith("crash " + m[1])
    if m[0] == "accept":
        if real.startswith("ok "):
            return real == "ok " + model_length(model)
        return real == "timeout" or real.startswith("core-refuse ") or real.startswith("core-crash ") or real.startswith("post-crash ")
    return False


def model_length(model):
    """the p_length field of an accept line: accept MAX (levels) M PRE LEN (handed) (ignored)"""
    rest = model[model.index(")") + 2:]
    return rest.split(" ")[2]


def length_hypotheses(s):
    """The hypotheses of C29_sm_length evaluated on a summary (plain Python arithmetic)."""
    counts = [sum(f[3]) for f in s[5]]
    S = 1
    for i in s[6]:
        S *= counts[i]
    P = 1 if any(s[5][i][0] and s[5][i][1].s == "transition" for i in s[6]) else 0
    T, cw = s[4], s[3]
    if not (S > 0 and S + P <= T and cw == (T - P + S - 1) // S):
        return False
    prim = [i for i, f in enumerate(s[5]) if not f[0]]
    return cw <= 1 or (bool(prim) and s[6].count(prim[0]) == 1)


def model_ignored(model):
    return model[model.rindex("(") + 1:-1].split()


def model_handed(model):
    inner = model[:model.rindex("(")].rstrip()
    return inner[inner.rindex("(") + 1:-1].split()


# --------------------------------------------------------------------------- programs

def shape(program):
    return {b["id"]: b for b in program["blocks"]}[program["main"]]["kind"]


def F(fid, name, levels):
    return {"id": fid, "name": name, "kind": "simple", "levels": [[l, 1] for l in levels]}


def cross(design, crossing, cons, constraints, factors):
    return {"factors": factors, "constraints": constraints,
            "blocks": [{"id": 0, "kind": "CrossBlock", "design": design, "crossing": crossing, "constraints": cons, "rcc": True}],
            "main": 0}


def hand_programs():
    out = []
    f = F(0, "f", ["a", "b"])
    g = F(1, "g", ["x", "y"])
    h3 = F(0, "f", ["a", "b", "c"])
    g3 = F(1, "g", ["x", "y", "z"])
    # the known defects, minimal
    out.append(("repeat-4-trials", {
        "factors": [f], "constraints": [{"id": 0, "kind": "MinimumTrials", "trials": 4}],
        "blocks": [{"id": 0, "kind": "CrossBlock", "design": [0], "crossing": [0], "constraints": [], "rcc": True},
                   {"id": 1, "kind": "Repeat", "block": 0, "constraints": [0]}], "main": 1}))
    # the internal Sustain constraint is not in the support test either: a Nest of a crossed outer block and an
    # uncrossed inner block has ONE crossing, passes the gate (C29_gate_sustain_refuted) and gets 2 of its 6 trials
    out.append(("nest-single-crossing-sustain", {
        "factors": [f, g3], "constraints": [{"id": 0, "kind": "MinimumTrials", "trials": 3}],
        "blocks": [{"id": 0, "kind": "CrossBlock", "design": [0], "crossing": [0], "constraints": [], "rcc": True},
                   {"id": 1, "kind": "CrossBlock", "design": [1], "crossing": [], "constraints": [0], "rcc": True},
                   {"id": 2, "kind": "Nest", "outer": 0, "inner": 1, "constraints": []}], "main": 2}))
    # the witnesses of the defect repaired by cac238c (these designs were accepted and the constraint
    # ignored); they exercise the refusal now
    out.append(("former-witness-ExactlyKInARow",
                cross([0, 1], [0, 1], [0], [{"id": 0, "kind": "ExactlyKInARow", "k": 2, "level": [0, "a"]}], [f, g])))
    out.append(("former-witness-Sequential", cross([0, 1], [0, 1], [0], [{"id": 0, "kind": "Sequential", "factor": 0}], [h3, g])))
    out.append(("former-witness-LatinSquare", cross([0, 1], [0, 1], [0], [{"id": 0, "kind": "LatinSquare", "factors": [0, 1]}], [h3, g3])))
    # a repaired kind after a passing one and before an older refused one: the message names the first refused entry
    out.append(("former-witness-Sequential-then-Pin",
                cross([0, 1], [0, 1], [0, 1, 2], [{"id": 0, "kind": "MinimumTrials", "trials": 6},
                                                  {"id": 1, "kind": "Sequential", "factor": 0},
                                                  {"id": 2, "kind": "Pin", "index": 0, "level": [1, "x"]}], [h3, g])))
    # plain and weighted crossings, MinimumTrials
    out.append(("plain", cross([0, 1], [0, 1], [], [], [f, g])))
    for mt in (3, 5, 8, 9):
        out.append(("mintrials-%d" % mt, cross([0, 1], [0, 1], [0], [{"id": 0, "kind": "MinimumTrials", "trials": mt}], [f, g])))
    fw = {"id": 0, "name": "f", "kind": "simple", "levels": [["a", 2], ["b", 1]]}
    out.append(("weighted", cross([0, 1], [0, 1], [], [], [fw, g])))
    out.append(("weighted-uncrossed-first", cross([0, 1], [1], [0], [{"id": 0, "kind": "MinimumTrials", "trials": 6}], [fw, g])))
    con = {"id": 2, "name": "con", "kind": "derived", "window": {"type": "within", "deps": [0, 1]},
           "levels": [{"name": "yes", "table": [[["a"], ["x"]], [["b"], ["y"]]]}, {"name": "no", "else": True}]}
    out.append(("within", cross([0, 1, 2], [0, 1], [], [], [f, g, con])))
    out.append(("within-crossed-only", cross([0, 1, 2], [2], [0], [{"id": 0, "kind": "MinimumTrials", "trials": 8}], [f, g, con])))
    rep = {"id": 2, "name": "rep", "kind": "derived", "window": {"type": "transition", "deps": [0]},
           "levels": [{"name": "same", "table": [[["a", "a"]], [["b", "b"]]]}, {"name": "diff", "else": True}]}
    out.append(("transition-crossed", cross([0, 1, 2], [1, 2], [], [], [f, g, rep])))
    out.append(("transition-uncrossed", cross([0, 1, 2], [0, 1], [], [], [f, g, rep])))
    repe = copy.deepcopy(rep)
    repe["levels"].reverse()
    out.append(("else-level-first", cross([0, 1, 2], [0, 1], [], [], [f, g, repe])))
    asym = {"id": 2, "name": "asym", "kind": "derived", "window": {"type": "transition", "deps": [0]},
            "levels": [{"name": "ab", "table": [[["a", "b"]]]}, {"name": "rest", "else": True}]}
    out.append(("transition-asymmetric", cross([0, 1, 2], [0, 1], [], [], [f, g, asym])))
    win = {"id": 2, "name": "win", "kind": "derived", "window": {"type": "window", "deps": [0], "width": 2, "stride": 1, "start": 1},
           "levels": [{"name": "same", "table": [[["a", "a"]], [["b", "b"]]]},
                      {"name": "diff", "table": [[["a", "b"]], [["b", "a"]]]}]}
    out.append(("window-class", cross([0, 1, 2], [0, 1], [], [], [f, g, win])))
    tr2 = {"id": 2, "name": "tr2", "kind": "derived", "window": {"type": "transition", "deps": [0, 1]},
           "levels": [{"name": "p", "table": [[["a", "a"], ["x", "x"]]]}, {"name": "q", "else": True}]}
    out.append(("transition-two-args", cross([0, 1, 2], [0, 1], [], [], [f, g, tr2])))
    trtr = {"id": 3, "name": "trtr", "kind": "derived", "window": {"type": "transition", "deps": [2]},
            "levels": [{"name": "ss", "table": [[["same", "same"]], [[None, "same"]]]}, {"name": "o", "else": True}]}
    out.append(("transition-of-transition", cross([0, 1, 2, 3], [0, 1], [], [], [f, g, rep, trtr])))
    out.append(("transition-forward-reference", cross([0, 1, 3, 2], [0, 1], [], [], [f, g, rep, trtr])))
    wtwt = {"id": 3, "name": "wtwt", "kind": "derived", "window": {"type": "within", "deps": [2]},
            "levels": [{"name": "y2", "table": [[["yes"]]]}, {"name": "n2", "else": True}]}
    out.append(("within-of-within", cross([0, 1, 2, 3], [0, 1], [], [], [f, g, con, wtwt])))
    trwt = {"id": 3, "name": "trwt", "kind": "derived", "window": {"type": "transition", "deps": [2]},
            "levels": [{"name": "yy", "table": [[["yes", "yes"]]]}, {"name": "o", "else": True}]}
    out.append(("transition-of-within", cross([0, 1, 2, 3], [0, 1], [], [], [f, g, con, trwt])))
    # weighted factor with an implied derived factor over it: SMGen's dicts lack the hidden factor add_implied_levels reads
    dw = {"id": 2, "name": "dw", "kind": "derived", "window": {"type": "within", "deps": [0]},
          "levels": [{"name": "isa", "table": [[["a"]]]}, {"name": "isb", "table": [[["b"]]]}]}
    out.append(("weighted-with-implied-derived", cross([0, 1, 2], [0, 1], [], [], [fw, g, dw])))
    out.append(("weighted-uncrossed-with-implied-derived", cross([0, 1, 2], [1], [], [], [fw, g, dw])))
    # the hidden replacement of the weighted f is in act_design (dw is crossed) but SMGen's dicts have no such key
    ew = {"id": 3, "name": "ew", "kind": "derived", "window": {"type": "within", "deps": [0]},
          "levels": [{"name": "ea", "table": [[["a"]]]}, {"name": "eb", "table": [[["b"]]]}]}
    out.append(("weighted-hidden-factor-read-by-implied", cross([0, 1, 2, 3], [1, 2], [], [], [fw, g, dw, ew])))
    for k in REFUSED:
        if k == "ExactlyKMultipleInARow":
            continue               # not expressible in the program IR: direct_cases()
        c = {"id": 0, "kind": k, "level": [0, "a"]}
        if k in ("AtMostKInARow", "AtLeastKInARow", "ExactlyK", "ExactlyKInARow"):
            c["k"] = 1
        if k == "Pin":
            c["index"] = 0
        if k == "Sequential":
            c = {"id": 0, "kind": k, "factor": 0}
        if k == "LatinSquare":
            c = {"id": 0, "kind": k, "factors": [0, 1]}
        out.append(("refused-" + k, cross([0, 1], [0, 1], [0], [c], [f, g])))
    return out


def expected_refusal(tag):
    """The constraint class a hand-written program must be refused for (None: no such expectation)."""
    t = tag.split(":", 1)[-1]
    for pre in ("refused-", "former-witness-", "direct-"):
        if t.startswith(pre):
            return t[len(pre):].split("-")[0]
    return None


def direct_cases():
    """Blocks built with the library API directly (constraint classes the program IR cannot express):
    (tag, thunk -> block).  No reference semantics: gate correspondence and refusal only."""
    def two():
        import sweetpea as sp
        return sp.Factor("f", ["a", "b"]), sp.Factor("g", ["x", "y"])

    def multiple_level():
        import sweetpea as sp
        from sweetpea._internal.constraint import ExactlyKMultipleInARow
        f, g = two()
        return sp.CrossBlock([f, g], [f, g], [ExactlyKMultipleInARow(2, (f, "a"))])

    def multiple_factor():
        import sweetpea as sp
        from sweetpea._internal.constraint import ExactlyKMultipleInARow
        f, g = two()
        return sp.CrossBlock([f, g], [f, g], [sp.MinimumTrials(8), ExactlyKMultipleInARow(2, f)])
    return [("direct-ExactlyKMultipleInARow", multiple_level), ("direct-ExactlyKMultipleInARow-factor", multiple_factor)]


def constraint_classes():
    """Names of the constraint classes defined in sweetpea._internal.constraint (the private base _KInARow excluded)."""
    import inspect
    import sweetpea._internal.constraint as cm
    from sweetpea._internal.base_constraint import Constraint
    return sorted(n for n, c in vars(cm).items()
                  if inspect.isclass(c) and issubclass(c, Constraint) and c.__module__ == cm.__name__ and not n.startswith("_"))


def family_programs():
    """Deterministic family (every tier): a derived factor over two trials in the crossing, the first
    design factor crossed, MinimumTrials(k) for every k from preamble+S to preamble+3S (S = crossing size).
    Transition windows pass the gate (the preamble row is prepended to every column before the
    maximum_trials truncation); the same window written with the Window class is refused."""
    out = []
    for nlev, fam in ((2, "transition-minimumtrials"), (3, "transition-minimumtrials")):
        names = ["r", "g", "b"][:nlev]
        color = F(0, "color", names)
        same = [[[n, n]] for n in names]
        tr = {"id": 1, "name": "tr", "kind": "derived", "window": {"type": "transition", "deps": [0]},
              "levels": [{"name": "same", "table": same}, {"name": "diff", "else": True}]}
        S, P = nlev * 2, 1
        for k in range(P + S, P + 3 * S + 1):
            out.append(("family:%s" % fam,
                        cross([0, 1], [0, 1], [0], [{"id": 0, "kind": "MinimumTrials", "trials": k}], [color, copy.deepcopy(tr)])))
    color = F(0, "color", ["r", "g"])
    extra = F(2, "shape", ["o", "x"])
    tr = {"id": 1, "name": "tr", "kind": "derived", "window": {"type": "transition", "deps": [0]},
          "levels": [{"name": "same", "table": [[["r", "r"]], [["g", "g"]]]}, {"name": "diff", "else": True}]}
    for k in range(5, 14):
        # crossing listed the other way round, an uncrossed factor last in the design
        out.append(("family:transition-minimumtrials",
                    cross([0, 1, 2], [1, 0], [0], [{"id": 0, "kind": "MinimumTrials", "trials": k}], [color, copy.deepcopy(tr), extra])))
    # a session: the same design with a different weight on a crossed derived level, one call after the
    # other in this process (the search core keeps module-level tables between calls;
    # seed C29-reset-state-drops-all-weights)
    for w in (2, 3, 1, 4, 2):
        isr = {"id": 1, "name": "isr", "kind": "derived", "window": {"type": "within", "deps": [0]},
               "levels": [{"name": "yes", "table": [[["r"]]], "weight": w}, {"name": "no", "else": True, "weight": 1}]}
        out.append(("family:weighted-derived-session", cross([0, 1], [1], [], [], [color, isr])))
    win = {"id": 1, "name": "win", "kind": "derived", "window": {"type": "window", "deps": [0], "width": 2, "stride": 1, "start": 1},
           "levels": [{"name": "same", "table": [[["r", "r"]], [["g", "g"]]]},
                      {"name": "diff", "table": [[["r", "g"]], [["g", "r"]]]}]}
    for k in range(5, 14):
        out.append(("family:window-minimumtrials",
                    cross([0, 1], [0, 1], [0], [{"id": 0, "kind": "MinimumTrials", "trials": k}], [color, copy.deepcopy(win)])))
    return out


def variants(rng, program):
    """Derived-of-derived / Window-class / multi-argument variants of a generated program."""
    p = copy.deepcopy(program)
    ders = [f for f in p["factors"] if f["kind"] == "derived"]
    if not ders:
        return None
    d = rng.choice(ders)
    r = rng.random()
    if r < 0.35 and d["window"]["type"] == "transition":
        # the same window written with the general Window class
        d["window"] = {"type": "window", "deps": d["window"]["deps"], "width": 2, "stride": 1, "start": 1}
        return p
    if r < 0.6 and d["window"]["type"] != "window" and any(l.get("else") for l in d["levels"]):
        d["levels"].reverse()          # the ElseLevel first
        return p
    return None


def gen_programs(ctx, n):
    rng = ctx.rng
    out = [("hand:" + t, p) for t, p in hand_programs()]
    out += family_programs()
    out += [("corpus:" + t, p) for t, p in gen_design.corpus()]
    shapes = ["cross", "cross", "cross", "cross", "repeat", "repeat", "multi", "merge", "nest", "cross"]
    i = 0
    while len(out) < n:
        i += 1
        sh = shapes[i % len(shapes)]
        feats = {}
        if i % 4 == 0:
            feats["wtype"] = rng.choice(["transition", "within", "within"])
        p = gen_design.gen_program(rng, max_space=20000 if ctx.quick else 60000, shape=sh, features=feats)
        if p is None:
            continue
        # half of the programs: drop the constraints the gate refuses, so that the gate is passed more often
        if rng.random() < 0.5:
            keep = [c["id"] for c in p["constraints"] if c["kind"] not in REFUSED]
            for b in p["blocks"]:
                b["constraints"] = [c for c in b.get("constraints", []) if c in keep]
        out.append((sh, p))
        v = variants(rng, p)
        if v is not None:
            out.append((sh + "+variant", v))
    return out


# --------------------------------------------------------------------------- oracle side

def sem_constraint_kinds(program, ds):
    """Kinds of the entries of ds.sem[3], in order (mirrors the loop of docsem.doc_sem)."""
    kinds = []
    for c0, scope in ds.block.constraints:
        for c in docsem.expand_constraint(program, c0):
            k = c["kind"]
            if k in ("ContinuousConstraint", "MinimumTrials"):
                continue
            if k == "LatinSquare" and len(c["factors"]) <= 1:
                continue
            kinds.append(k)
    return kinds


def judge(program, ds, seqs_raw, suffix=""):
    """List of (sig, what, sample) for the sequences the oracle rejects.  `suffix` refines the
    length signature (family name, or that the hypotheses of C29_sm_length hold) so that a new
    length defect is never taken for the listed one."""
    sh = shape(program)
    out = []
    seqs = []
    idx = []
    for smp in seqs_raw:
        lens = sorted(set(len(v) for v in smp.values()))
        if lens != [ds.T]:
            out.append(("smgen:length:" + sh + suffix, "returned columns of length %s, documented trial count %d" % (lens, ds.T), smp))
            continue
        q = docsem.seq_of_sample(ds, smp)
        if q is None:
            out.append(("smgen:shape:" + sh, "returned dict lacks a design factor or holds an unknown level name", smp))
            continue
        seqs.append(q)
        idx.append(smp)
    if not seqs:
        return out
    ok = designrun.oracle_valid(ds, seqs)
    kinds = sem_constraint_kinds(program, ds)
    for q, smp, v in zip(seqs, idx, ok):
        if v:
            continue
        why = designrun.oracle_why(ds, q)
        parts = why.replace("(", " ( ").replace(")", " ) ").split()
        groups, cur = [], None
        for tok in parts:
            if tok == "(":
                cur = []
            elif tok == ")":
                groups.append(cur)
                cur = None
            elif cur is not None:
                cur.append(tok == "true")
        fs, cs, ks = (groups + [[], [], []])[:3]
        if False in ks and len(ks) == len(kinds):
            k = kinds[ks.index(False)]
            out.append(("smgen:ignored:" + k, "sequence violates the design's %s constraint" % k, smp))
        elif False in fs:
            fidx = fs.index(False)
            out.append(("smgen:derived:" + sh, "factor %s (position %d of the semantics) has a level that does not fit its window / applicability"
                        % (ds.names[ds.forder[fidx]], fidx), smp))
        elif False in cs:
            out.append(("smgen:crossing:" + sh, "crossing multiplicities violated", smp))
        else:
            out.append(("smgen:invalid:" + sh, "oracle rejects: " + why[:120], smp))
    return out


# --------------------------------------------------------------------------- one program

def run_program(ctx, program, nseeds, limit, seeds=None, tag=""):
    r = {"status": None}
    built = ir.build(program)
    block = ir.main_block(built, program)
    if block is None:
        r["status"] = "rejected"
        return r
    try:
        with ir.quiet():
            s = summary_of(block)
    except Exception as e:  # noqa
        r["status"] = "no-summary"
        r["error"] = type(e).__name__ + ": " + str(e)[:100]
        return r
    r["status"] = "built"
    r["summary"] = s
    r["line"] = "(gate %s)" % docsem.to_wire(s)
    try:
        ds = docsem.doc_sem(program)
        r["T_doc"] = ds.T
    except docsem.Unsupported as e:
        ds = None
        r["doc"] = "unsupported: " + str(e)[:80]
    except Exception as e:  # noqa
        ds = None
        r["doc"] = "error: " + type(e).__name__
    suffix = ""
    if tag.startswith("family:"):
        suffix = ":" + tag.split(":", 1)[1]
    elif length_hypotheses(s):
        suffix = ":length-theorem-applies"
    r["runs"] = []
    r["found"] = []
    seeds = seeds or [ctx.rng.randrange(2 ** 31) for _ in range(nseeds)]
    r["seeds"] = seeds
    for i, seed in enumerate(seeds):
        b2 = ir.build(program)
        blk2 = ir.main_block(b2, program)
        out = run_smgen(blk2, 2, seed, limit)
        cls = classify_real(blk2, out)
        r["runs"].append(cls)
        if cls.startswith("core-crash ") or cls.startswith("post-crash "):
            r["found"].append(("smgen:raises:%s:%s" % (cls.split(" ")[1], cls.split(" ")[2].split(":")[0]),
                               "the design passes SMGen's support test but synthesize_trials raises %s (%s) instead of refusing or "
                               "returning sequences" % (cls.split(" ")[1], cls.split(" ")[2]), {"seed": seed, "error": list(out[1:4])}))
        if out[0] != "ok":
            if i == 0 or cls.startswith("timeout"):
                break          # deterministic refusal / crash, or a search that does not end: the other seeds add nothing
            continue
        if ds is not None:
            for sig, what, smp in judge(program, ds, out[1], suffix):
                r["found"].append((sig, what, {"seed": seed, "sample": smp}))
        if b2.outside_domain:
            r.setdefault("outside", b2.outside_domain[:2])
    return r


def run_direct(ctx, tag, thunk, limit):
    """A block built with the library API (no program IR, no reference semantics): summary, model line, one real run."""
    r = {"status": None, "tag": tag, "found": [], "runs": [], "doc": "unsupported: direct"}
    try:
        with ir.quiet():
            block = thunk()
            s = summary_of(block)
    except Exception as e:  # noqa
        r["status"] = "rejected"
        r["error"] = type(e).__name__ + ": " + str(e)[:100]
        return r
    r["status"] = "built"
    r["summary"] = s
    r["line"] = "(gate %s)" % docsem.to_wire(s)
    seed = ctx.rng.randrange(2 ** 31)
    r["seeds"] = [seed]
    with ir.quiet():
        blk2 = thunk()
    out = run_smgen(blk2, 2, seed, limit)
    r["runs"].append(classify_real(blk2, out))
    if out[0] == "ok":
        # no oracle for these classes here: a returned sequence means the design was not refused
        r["found"].append(("smgen:ignored:" + (expected_refusal(tag) or "?"),
                           "the design carries a constraint SMGen does not implement, yet sequences are returned instead of the "
                           "documented refusal", {"seed": seed, "sample": out[1][:1]}))
    return r


# --------------------------------------------------------------------------- run / replay

def run(ctx, res):
    quick = ctx.quick
    n = 260 if quick else 1800
    nseeds = 3 if quick else 6
    limit = 1.0 if quick else 2.5
    res.rule = ("%d programs: hand-written (one per refusal / crash class incl. each of the nine user constraint classes the support test "
                "lists since cac238c and the former witnesses of smgen:ignored:*, which must be refused with the documented message; "
                "the known defects, weights, MinimumTrials, derived of "
                "derived, Window-class and ElseLevel-first levels) + the family 'two-trial derived factor crossed with the first "
                "design factor x MinimumTrials(k), k = preamble+S .. preamble+3S' (Transition: 2 and 3 levels, crossing order "
                "swapped with an uncrossed factor; Window class: refused) + corpus + gen_design of every shape (cross, repeat, multi, "
                "merge, nest) and constraint kind, half of them with the refused kinds removed so that the gate is passed; per "
                "program the gate outcome vs. SMGate.gate and up to %d seeds x 2 sequences (wall-clock limit %.1fs per call), "
                "every sequence judged by the reference oracle; non-trivial = the gate is reached (block built); distinct by "
                "program text" % (n, nseeds, limit))
    progs = gen_programs(ctx, n)
    runs = []
    lines = []
    for tag, p in progs:
        try:
            r = run_program(ctx, p, nseeds, limit, tag=tag)
        except Exception as e:  # noqa
            import traceback
            r = {"status": "harness-error", "error": traceback.format_exc()[-400:]}
        r["tag"] = tag
        if r.get("line"):
            r["li"] = len(lines)
            lines.append(r["line"])
        runs.append((p, r))
    for tag, thunk in direct_cases():
        p = {"direct": tag}
        try:
            r = run_direct(ctx, "direct:" + tag, thunk, limit)
        except Exception as e:  # noqa
            import traceback
            r = {"status": "harness-error", "error": traceback.format_exc()[-400:], "tag": "direct:" + tag}
        if r.get("line"):
            r["li"] = len(lines)
            lines.append(r["line"])
        runs.append((p, r))
    # the classes of constraint.py as the model reads them
    classes = constraint_classes()
    k0 = len(lines)
    lines += ["(classify %s)" % c for c in classes]
    outs = ctx.model(lines) if lines else []
    stats = {"status": {}, "shape": {}, "model": {}, "real": {}, "sequences-judged": 0, "oracle-unsupported": 0,
             "accepted-with-ignored-constraints": 0, "refusals-expected": 0,
             "length-theorem-hypotheses-hold": 0, "timeouts": 0, "constraint-classes": {}}
    corr_bad = []
    found = []
    for c, o in zip(classes, outs[k0:]):
        want = "%s %s %s %s" % (c, "refused" if c in REFUSED else "passes", "user" if c in REFUSED else "internal",
                                "realised" if c in REALISED else "unrealised")
        stats["constraint-classes"][c] = o
        ok = o == want
        res.layer("kinds", ok)
        res.count("class:" + c, nontrivial=True)
        if not ok:
            corr_bad.append(("kinds", {"class": c}, {"model": o, "expected": want}))
    for p, r in runs:
        key = json.dumps(p, sort_keys=True)
        st = r["status"]
        stats["status"][st] = stats["status"].get(st, 0) + 1
        if st == "harness-error":
            corr_bad.append(("harness", p, r["error"]))
            res.count(key, nontrivial=False)
            continue
        if st != "built":
            res.count(key, nontrivial=False)
            continue
        res.count(key, nontrivial=True)
        sh = shape(p) if "direct" not in p else "CrossBlock"
        stats["shape"][sh] = stats["shape"].get(sh, 0) + 1
        model = outs[r["li"]]
        if any(k.s == "Other" or k.s not in classes for k in r["summary"][2]):
            corr_bad.append(("kinds", p, {"constraints": [k.s for k in r["summary"][2]], "known": classes}))
        exp = expected_refusal(r["tag"]) if r["tag"].split(":")[0] in ("hand", "direct") else None
        if exp is not None:
            stats["refusals-expected"] += 1
            want = "refuse constraint " + exp
            okr = model == want and bool(r["runs"]) and all(c == want for c in r["runs"])
            res.layer("refusal-documented", okr)
            if not okr:
                corr_bad.append(("refusal-documented", p, {"expected": want, "model": model[:200], "real": r["runs"][:3]}))
        mk = " ".join(model.split(" ")[:3 if model.startswith("refuse constraint") else 2]) if not model.startswith("accept") else "accept"
        stats["model"][mk] = stats["model"].get(mk, 0) + 1
        if "doc" in r:
            stats["oracle-unsupported"] += 1
        for cls in r["runs"]:
            rk = " ".join(cls.split(" ")[:3 if cls.startswith("refuse constraint") else 2]) if not cls.startswith("ok") else "ok"
            stats["real"][rk] = stats["real"].get(rk, 0) + 1
            stats["timeouts"] += cls == "timeout"
            ok = (not model.startswith("!")) and gate_agrees(model, cls)
            res.layer("gate", ok)
            res.count(None, nontrivial=False)
            if not ok:
                corr_bad.append(("gate", p, {"model": model[:200], "real": cls, "summary": docsem.to_wire(r["summary"])[:300]}))
            if cls.startswith("ok"):
                stats["sequences-judged"] += 2
        if model.startswith("accept"):
            ign = model_ignored(model)
            stats["accepted-with-ignored-constraints"] += bool(ign)
            # instance of C29_gate_total: an accepted design has no user constraint class; what is left over is Sustain / unknown
            okt = set(ign) <= {"Sustain", "Other"} and not any(k.s in REFUSED for k in r["summary"][2]) and not model_handed(model)
            res.layer("gate-total-instance", okt)
            if not okt:
                corr_bad.append(("gate-total-instance", p, {"model": model[:200], "constraints": [k.s for k in r["summary"][2]]}))
            # instances of C29_sm_length: the arithmetic hypotheses are read off the summary of the real block
            s = r["summary"]
            if length_hypotheses(s):
                stats["length-theorem-hypotheses-hold"] += 1
                okl = model_length(model) == str(s[4])
                res.layer("length-theorem-instance", okl)
                if not okl:
                    corr_bad.append(("length-theorem-instance", p, {"model": model[:200], "trials": s[4]}))
        for sig, what, detail in r.get("found", []):
            found.append((sig, what, detail, p))
        if r["tag"].startswith("hand:") or r["tag"].startswith("direct:") or (model.startswith("accept") and any(c.startswith("ok") for c in r["runs"]) and r.get("found")):
            res.sample({"tag": r["tag"], "shape": sh, "model": model[:160], "real": r["runs"][:3],
                        "findings": sorted(set(f[0] for f in r.get("found", [])))}, limit=12)
    res.extra["input_distribution"] = stats
    seen = set()
    for sig, what, detail, p in found:
        if sig in seen:
            continue
        seen.add(sig)
        res.violations.append(Violation(sig, "SMGen: " + what + "  program=" + json.dumps(p, sort_keys=True)[:1000],
                                        {"program": p, "detail": detail, "sig": sig,
                                         "tag": [r["tag"] for q, r in runs if q is p][0]}))
    if corr_bad:
        layer, p, d = corr_bad[0]
        res.violations.append(Violation(
            "corr:" + layer, "model (SM/SMGate.v) and real SMGen disagree on %d observations, first: %s"
            % (len(corr_bad), json.dumps(d, default=str)[:400]),
            {"layer": layer, "program": p, "detail": d, "theorems": ["C29_*"]}, failing_input=False))
    res.extra["disagreements"] = [(l, json.dumps(d, default=str)[:400], json.dumps(p, sort_keys=True)[:1500]) for l, p, d in corr_bad[:8]]
    res.assumptions.append("search core scattered_map_core.sm_backtrack_random not modelled; its outputs are validated per run by "
                           "the reference oracle (Design/Sem.v valid_b); timer interleavings (threading.Timer callback in another "
                           "thread) are runtime behaviour outside any executable model: partial")
    res.notes.append("gate layer: refusal message / crash class / column length of the real SMGen vs SMGate.gate; search: "
                     "oracle_valid on every returned sequence, failing component names the finding; kinds: the classes of "
                     "constraint.py vs SMGate.refused_kind / user_kind / realised_kind; refusal-documented: hand-written designs "
                     "with a user constraint class are refused naming it (repair cac238c of smgen:ignored:*)")


def replay(ctx, data):
    p = data["program"]
    if "direct" in p:
        thunk = dict(direct_cases())[p["direct"]]
        r = run_direct(ctx, "direct:" + p["direct"], thunk, 3.0)
        return data.get("sig") in [s for s, _, _ in r.get("found", [])]
    seeds = None
    if isinstance(data.get("detail"), dict) and "seed" in data["detail"]:
        seeds = [data["detail"]["seed"]] + [ctx.rng.randrange(2 ** 31) for _ in range(7)]
    r = run_program(ctx, p, 8, 3.0, seeds=seeds, tag=data.get("tag", ""))
    sigs = [s for s, _, _ in r.get("found", [])]
    return data.get("sig") in sigs if data.get("sig") else bool(sigs)
