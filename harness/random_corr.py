"""Correspondence layer L8: the real `UCSolutionEnumerator` / `RandomGen` rejection
test of /repo against the extracted model `Random/Enum.v` (driver
extract/drv_random.ml), on the flat record extracted from the real block.

random_correspondence(ctx, res, programs, max_keys=5000) -> list of records, one
per program:
  {"program", "status": "compared" | "build-error" | "flat-error" | ...,
   "enum_real", "enum_model", "keys": n or None, "real_all": [(key, run|("err",E), violated|("err",E))...],
   "mismatch": None | description, "block", "enumerator", "T", "rounds", "leftover"}
and records per-layer agreement with res.layer(...):
  L8-enumerator  counts / shapes / partitions / error class of the constructor
  L8-keys        the list of candidate keys (designs with <= max_keys keys)
  L8-decode      every key -> candidate sequence (or exception class)
  L8-verdict     every candidate -> rejected? (or exception class)
Nothing here consults the oracle; the function is self-contained (it builds the
real objects itself and makes one model call).
"""
import itertools
import sys
import traceback

import common
import flat
import ir


# --------------------------------------------------------------------------- real side

def _exc(e):
    tb = traceback.extract_tb(sys.exc_info()[2])
    where = "%s:%d" % (tb[-1].name, tb[-1].lineno) if tb else "?"
    return ("err", type(e).__name__, where)


class _Timeout(BaseException):
    pass


class time_limit:
    """Interrupt the enclosed real-code call after `seconds` (SIGALRM; main thread only)."""

    def __init__(self, seconds):
        self.seconds = seconds

    def __enter__(self):
        import signal

        def handler(signum, frame):
            raise _Timeout()
        self.old = signal.signal(signal.SIGALRM, handler)
        signal.setitimer(signal.ITIMER_REAL, self.seconds)

    def __exit__(self, *a):
        import signal
        signal.setitimer(signal.ITIMER_REAL, 0)
        signal.signal(signal.SIGALRM, self.old)
        return False


def real_enumerator(block, limit=None):
    from sweetpea._internal.sampling_strategy.random import UCSolutionEnumerator
    try:
        with ir.quiet():
            if limit:
                with time_limit(limit):
                    return ("ok", UCSolutionEnumerator(block))
            return ("ok", UCSolutionEnumerator(block))
    except _Timeout:
        return ("slow",)
    except Exception as e:  # noqa
        return _exc(e)


def _fi(block, f):
    return list(block.design).index(f)


def _li(f, l):
    return list(f.levels).index(l)


def _fl(block, pairs):
    return [[_fi(block, f), [_li(f, l) for l in ls]] for f, ls in pairs]


def real_geometry(block, en):
    T = block.trials_per_sample()
    cs = en.crossing_size
    return T, (T - en._preamble_size) // cs, (T - en._preamble_size) % cs


def real_summary(block, en):
    """The same fields, in the same order, as the model's `rg_enum` line."""
    T, rounds, leftover = real_geometry(block, en)
    sh, lsh = en._components_shape, en._leftover_components_shape
    possible = en.preamble_solution_count() * pow(en.solution_count(), rounds) * en.leftover_solution_count()
    return [
        en._partitions.main_crossing, en._preamble_size, en.crossing_size,
        en._UCSolutionEnumerator__complex_crossing_instances, bool(en._crossing_is_unweighted),
        len(en._crossing_instances), en.solution_count(), en.preamble_solution_count(), en.leftover_solution_count(),
        leftover, rounds, possible,
        [sh.crossings_shape, list(sh.combinations_shapes), list(sh.independent_shapes)],
        [lsh.crossings_shape, list(lsh.combinations_shapes), list(lsh.independent_shapes)],
        list(en.crossing_sizes), list(en.preamble_sizes), list(en.crossing_weights),
        bool(en.has_crossed_complex_derived_factors), [list(x) for x in en._valid_source_combinations_indices],
        [_fi(block, f) for f in en._sorted_derived_factors],
        [_fi(block, f) for f in en._sorted_uncrossed_derived_and_complex_derived],
        _fl(block, en._ind_factor_levels), _fl(block, en._basic_factor_levels),
        [[[_fi(block, f), _li(f, l)] for f, l in ci.items()] for ci in en._crossing_instances],
        list(en._crossing_weights),
    ]


def real_components(en, shape, trial_count, lo):
    """Every `Components` triple `random_components(shape, trial_count, lo)` can return,
    using the enumerator's own shapes and `jth_permutation_indices`."""
    out = []
    q = len(en._crossing_instances)
    for pi in range(shape.crossings_shape):
        if trial_count == q and en._crossing_is_unweighted:
            src_shapes = list(shape.combinations_shapes)
        else:
            perm = en.jth_permutation_indices(q, en.crossing_size if lo == 0 else lo, pi,
                                              en._pmemo if lo == 0 else en._leftover_pmemo)
            src_shapes = [shape.combinations_shapes[p] for p in perm]
        for src in itertools.product(*[range(s) for s in src_shapes]):
            for ind in itertools.product(*[range(s) for s in shape.independent_shapes]):
                out.append((pi, tuple(src), tuple(ind)))
    return out


def real_all_keys(block, en):
    """All keys `extract_sequence_key` can produce, in lexicographic order of the draws."""
    T, rounds, leftover = real_geometry(block, en)
    with ir.quiet():
        comps = real_components(en, en._components_shape, en.crossing_size, 0)
        lcomps = real_components(en, en._leftover_components_shape, leftover, leftover) if leftover > 0 else None
    keys = []
    for pre in range(en.preamble_solution_count()):
        for rs in itertools.product(comps, repeat=rounds):
            if lcomps is None:
                keys.append((pre,) + tuple(rs))
            else:
                for l in lcomps:
                    keys.append((pre,) + tuple(rs) + (l,))
    return keys


def real_decode(block, en, key):
    """key -> the candidate `run` exactly as `RandomGen.__sample` assembles it."""
    from sweetpea._internal.sampling_strategy.random import RandomGen
    T, rounds, leftover = real_geometry(block, en)
    combine = RandomGen._RandomGen__combine_round
    with ir.quiet():
        pieces = [en.generate_preamble_sample(key[0])]
        pieces += [en.generate_sample_from_components(c) for c in key[1:1 + rounds]]
        if leftover > 0:
            pieces.append(en.generate_leftover_sample(key[-1], leftover))
        run = pieces[0]
        for p in pieces[1:]:
            run = combine(run, p)
        return en.fill_in_nonpreamble_uncrossed_derived(run, T)


def real_violated(block, en, run):
    from sweetpea._internal.sampling_strategy.random import RandomGen
    T, rounds, leftover = real_geometry(block, en)
    with ir.quiet():
        return bool(RandomGen._RandomGen__are_constraints_violated(block, run, en, rounds, leftover, 0))


def run_rows(block, run):
    rows = []
    for f, row in run.items():
        rows.append([_fi(block, f), [(-1 if l is None else _li(f, l)) for l in row]])
    rows.sort()
    return rows


def real_names(block, en, run):
    """What synthesize_trials returns for this run: names, implied levels added, hidden keys dropped."""
    with ir.quiet():
        d = en.factors_and_levels_to_names(run)
        d = block.add_implied_levels(d)
    return {k: v for k, v in d.items() if isinstance(k, str)}


def real_all(block, en):
    out = []
    for key in real_all_keys(block, en):
        try:
            run = real_decode(block, en, key)
        except Exception as e:  # noqa
            out.append((key, _exc(e), None, None))
            continue
        try:
            v = real_violated(block, en, run)
        except Exception as e:  # noqa
            v = _exc(e)
        out.append((key, run_rows(block, run), v, run))
    return out


# --------------------------------------------------------------------------- model side

def _canon(x):
    if isinstance(x, common.StrTok):
        return str(x)
    if isinstance(x, list):
        return [_canon(y) for y in x]
    if x == "true":
        return True
    if x == "false":
        return False
    return x


def parse_enum(line):
    if line.startswith("!"):
        return ("model-crash", line)
    r = common.parse_sexp(line)[0]
    if r and r[0] == "err":
        return ("err", r[1])
    return ("ok", _canon(r[1:]))


def parse_all(line):
    if line.startswith("!"):
        return ("model-crash", line)
    r = common.parse_sexp(line)[0]
    if not r:
        return ("model-crash", line)
    if r[0] in ("err", "keyerr", "big"):
        return (r[0], r[1])
    out = []
    for k, run, v in r[1:]:
        key = tuple([k[0]] + [(c[0], tuple(c[1]), tuple(c[2])) for c in k[1:]])
        if run[0] == "err":
            out.append((key, ("err", run[1]), None))
        else:
            rows = [[f, list(row)] for f, row in run[1]]
            vv = ("err", v[1]) if isinstance(v, list) else (v == "true")
            out.append((key, rows, vv))
    return ("ok", out)


def _tolist(x):
    if isinstance(x, tuple):
        return [_tolist(y) for y in x]
    if isinstance(x, list):
        return [_tolist(y) for y in x]
    return x


# --------------------------------------------------------------------------- the layer

OUTSIDE = ("OutsideModel", "OutOfFuel")


def random_correspondence(ctx, res, programs, max_keys=5000, keep_runs=True, ctor_limit=1.5, thm_keys=300):
    """See module docstring.  Designs on which the real constructor needs more than
    `ctor_limit` seconds (its `sum_combination_products` loop visits every
    permutation) are counted as "real-too-slow" and not compared.
    For designs inside the proved fragment (Frag.frag1, which contains Frag.frag0) with at most
    `thm_keys` keys the executable statements of the theorems of Properties/C04-C06
    (sound / injective / complete against Sem.all_valid / #accepted = #valid / possible_keys = #valid
    when nothing is rejected) are evaluated on the model:
    rec["thm"] = ("frag", nkeys, sound, inj, complete, accepted_count, count, in_frag0, rejection_free, naccepted,
                  level, enumerates)
               | ("outside",) | ("big", n, level) | ("refused", level)  (show_errors() fails);
    level: 0 = Frag.frag0, 1 = Frag.frag1, 2 = Frag.frag2 (weights); enumerates = FragSem.enumerates_b,
    the side condition of the frag2 completeness / count theorems."""
    recs = []
    lines = []
    for program in programs:
        rec = {"program": program, "status": None, "mismatch": None, "keys": None, "real_all": None}
        recs.append(rec)
        built = ir.build(program)
        blk = ir.main_block(built, program)
        if blk is None:
            rec["status"] = "build-error"
            continue
        try:
            with ir.quiet():
                rec["T"] = blk.trials_per_sample()
                rec["show_errors"] = bool(blk.show_errors())
            wire = flat.flat_wire(blk)
        except Exception as e:  # noqa
            rec["status"] = "flat-error"
            rec["detail"] = repr(e)[:200]
            continue
        rec["block"] = blk
        rec["built"] = built
        rec["r_en"] = real_enumerator(blk, ctor_limit)
        if rec["r_en"][0] == "slow":
            rec["status"] = "real-too-slow"
            continue
        rec["line_idx"] = len(lines)
        lines.append("(rg_enum %s)" % wire)
        lines.append("(rg_all %s %d)" % (wire, max_keys))
        lines.append("(rg_thm %s %d)" % (wire, thm_keys))
    outs = common.run_model(lines) if lines else []
    for rec in recs:
        if "line_idx" not in rec:
            res.count(("L8", rec["status"]), nontrivial=False)
            continue
        program, blk = rec["program"], rec["block"]
        m_enum = parse_enum(outs[rec["line_idx"]])
        m_all = parse_all(outs[rec["line_idx"] + 1])
        t = outs[rec["line_idx"] + 2]
        rec["thm"] = tuple(_canon(common.parse_sexp(t)[0])) if not t.startswith("!") else ("model-crash", t)
        if rec["thm"][0] == "frag":
            res.layer("L8-theorem-statements", all(x is True for x in rec["thm"][2:7]) and rec["thm"][11] is True)
        rec["enum_model"] = m_enum
        r_en = rec["r_en"]
        if m_enum[0] == "model-crash" or m_all[0] == "model-crash":
            rec["status"] = "model-crash"
            rec["mismatch"] = "model driver failed: %r" % (m_enum if m_enum[0] == "model-crash" else m_all,)
            res.layer("L8-enumerator", False)
            continue
        if m_enum[0] == "err" and m_enum[1] in OUTSIDE:
            rec["status"] = "outside-model"
            res.count(("L8", "outside-model", m_enum[1]), nontrivial=False)
            continue
        # ---- constructor: error class or all counts / shapes / partitions
        if r_en[0] == "err":
            rec["enum_real"] = r_en
            ok = (m_enum[0] == "err" and m_enum[1] == r_en[1])
            res.layer("L8-enumerator", ok)
            rec["status"] = "enumerator-raises"
            res.count(("L8", "raises", r_en[1], r_en[2]), nontrivial=True)
            if not ok:
                rec["mismatch"] = "constructor: real raises %s at %s, model %r" % (r_en[1], r_en[2], m_enum[:2])
            continue
        en = r_en[1]
        rec["enumerator"] = en
        try:
            summary = _tolist(real_summary(blk, en))
        except Exception as e:  # noqa
            rec["status"] = "summary-error"
            rec["mismatch"] = "real summary failed: %r" % (e,)
            res.layer("L8-enumerator", False)
            continue
        rec["enum_real"] = ("ok", summary)
        rec["T"], rec["rounds"], rec["leftover"] = real_geometry(blk, en)
        ok = (m_enum[0] == "ok" and m_enum[1] == summary)
        res.layer("L8-enumerator", ok)
        if not ok:
            rec["status"] = "compared"
            if m_enum[0] == "ok":
                diff = [i for i, (a, b) in enumerate(zip(m_enum[1], summary)) if a != b]
                rec["mismatch"] = "enumerator fields %r differ: model %r real %r" % (
                    diff, [m_enum[1][i] for i in diff][:4], [summary[i] for i in diff][:4])
            else:
                rec["mismatch"] = "constructor: real ok, model %r" % (m_enum,)
            # the tie is broken; the search on the real code (every key the real enumerator
            # believes exists, against the oracle) still runs so that a concrete failing input is found
            try:
                if summary[11] <= max_keys and en.solution_count() > 0:
                    r_all = real_all(blk, en)
                    rec["keys"] = len(r_all)
                    rec["real_all"] = r_all if keep_runs else [(k, rows, v, None) for k, rows, v, _ in r_all]
            except Exception:  # noqa
                rec["real_all"] = None
            continue
        possible = summary[11]
        rec["possible_keys"] = possible
        res.count(("L8", "enum", tuple(summary[:6]), possible), nontrivial=True)
        if possible > max_keys:
            rec["status"] = "counts-only"
            if m_all[0] != "big":
                rec["mismatch"] = "model does not report (big): %r" % (m_all[:2],)
                res.layer("L8-keys", False)
            continue
        if en.solution_count() == 0:
            rec["status"] = "no-solutions"
            rec["real_all"] = []
            rec["keys"] = 0
            continue
        # ---- every key
        try:
            r_all = real_all(blk, en)
        except Exception as e:  # noqa
            ex = _exc(e)
            ok = m_all[0] == "keyerr" and m_all[1] == ex[1]
            res.layer("L8-keys", ok)
            rec["status"] = "key-enumeration-raises"
            if not ok:
                rec["mismatch"] = "key enumeration: real raises %r, model %r" % (ex, m_all[:2])
            continue
        rec["keys"] = len(r_all)
        rec["real_all"] = r_all if keep_runs else [(k, rows, v, None) for k, rows, v, _ in r_all]
        rec["status"] = "compared"
        if m_all[0] != "ok":
            res.layer("L8-keys", False)
            rec["mismatch"] = "model key enumeration: %r" % (m_all[:2],)
            continue
        mk = [k for k, _, _ in m_all[1]]
        rk = [k for k, _, _, _ in r_all]
        same_keys = (mk == rk)
        res.layer("L8-keys", same_keys and len(rk) == possible)
        if not same_keys:
            rec["mismatch"] = "key lists differ: model %d keys, real %d keys, possible_keys %d; first model %r first real %r" % (
                len(mk), len(rk), possible, mk[:1], rk[:1])
            continue
        if len(rk) != possible:
            rec["mismatch"] = "enumerated %d keys but possible_keys = %d" % (len(rk), possible)
            continue
        for (k, mrun, mv), (_, rrows, rv, _) in zip(m_all[1], r_all):
            if isinstance(mrun, tuple) and mrun[1] in OUTSIDE:
                res.count(("L8", "outside-model", mrun[1]), nontrivial=False)
                continue
            if isinstance(rrows, tuple):
                okd = isinstance(mrun, tuple) and mrun[1] == rrows[1]
            else:
                okd = (mrun == rrows)
            res.layer("L8-decode", okd)
            if not okd:
                if rec["mismatch"] is None:
                    rec["mismatch"] = "decode of key %r: model %r real %r" % (k, mrun, rrows)
                    rec["mismatch_key"] = _tolist(k)
                continue
            if isinstance(rrows, tuple):
                continue
            if isinstance(mv, tuple) and mv[1] in OUTSIDE:
                res.count(("L8", "outside-model", mv[1]), nontrivial=False)
                continue
            if isinstance(rv, tuple):
                okv = isinstance(mv, tuple) and mv[1] == rv[1]
            else:
                okv = (mv == rv)
            res.layer("L8-verdict", okv)
            if not okv and rec["mismatch"] is None:
                rec["mismatch"] = "verdict of key %r: model violated=%r real violated=%r (run %r)" % (k, mv, rv, rrows)
                rec["mismatch_key"] = _tolist(k)
    return recs


def summarize(recs):
    """Status histogram + error classes, for the evidence file."""
    hist = {}
    for r in recs:
        s = r["status"]
        if s == "enumerator-raises":
            s = "enumerator-raises:%s@%s" % (r["enum_real"][1], r["enum_real"][2])
        hist[s] = hist.get(s, 0) + 1
    return hist


def reported_count_finding(rec, n_valid, rejection_free):
    """C06, second half: for a design that needs no rejection step,
    metrics['solution_count'] must equal the number of valid sequences.
    RandomGen reports `enumerator.solution_count()`, the count of ONE round.
    Returns None or (sig, description) with sig `random:solution-count:per-round`."""
    en = rec.get("enumerator")
    if en is None or not rejection_free:
        return None
    reported = en.solution_count()
    if reported == n_valid:
        return None
    T, rounds, leftover = real_geometry(rec["block"], en)
    return ("random:solution-count:per-round",
            "metrics['solution_count'] = %d is the count of one round; the design has %d valid sequences "
            "(= preamble %d * %d^%d rounds * leftover %d)" % (
                reported, n_valid, en.preamble_solution_count(), reported, rounds, en.leftover_solution_count()))
