"""Entry point of every check:  run.py Cnn --tier quick|thorough [--replay path]
                               run.py --setup
"""
import argparse
import importlib
import json
import os
import sys
import time
import traceback
import warnings

warnings.filterwarnings("ignore")
sys.path.insert(0, os.path.dirname(os.path.abspath(__file__)))
import common  # noqa: E402
from common import Ctx, Result, Violation  # noqa: E402


def newest(paths):
    return max((os.path.getmtime(p) for p in paths if os.path.exists(p)), default=0)


def model_sources():
    res = common.coq_sources()
    ex = os.path.join(common.VERIF, "extract")
    res += [os.path.join(ex, f) for f in os.listdir(ex) if f.endswith(".ml") or f.endswith(".sh")]
    return res


def ensure_model(domains):
    """Per-domain driver binaries extract/spmodel_<Dom> (so that one domain's
    build problem cannot break another property's check)."""
    logs = []
    ok = True
    for d in domains:
        binary = os.path.join(common.VERIF, "extract", "spmodel_" + d)
        if os.path.exists(binary) and os.path.getmtime(binary) >= newest(model_sources()):
            continue
        okb, logb = common.ensure_build(["theories/Extract/Roots%s.vo" % d])
        r = common.sh("./build.sh %s 2>&1 | tail -30" % d, cwd=os.path.join(common.VERIF, "extract"))
        if not okb or not os.path.exists(binary) or "rror" in r.stdout:
            ok = False
            logs.append(logb[-300:] + r.stdout[-500:])
    return ok, "\n".join(logs)


ALL_DOMAINS = ["Card", "Logic", "Comb", "Text", "Out", "Cont", "Design", "Layout", "Decode", "Compile", "Check", "Random",
               "Front", "Hist", "Derive", "SM", "Iterate", "DocSem", "T2"]


def setup():
    with common.build_lock():
        return _setup()


def _setup():
    common.gen_coqproject()
    r = common.sh("coq_makefile -f _CoqProject -o Makefile >/dev/null 2>&1; timeout 6000 make -k -j16 2>&1 | tail -60", cwd=common.COQ)
    print(r.stdout[-3000:])
    failed = "Error" in r.stdout or "*** " in r.stdout
    doms = [d for d in ALL_DOMAINS if os.path.exists(os.path.join(common.COQ, "theories", "Extract", "Roots%s.v" % d))]
    ok, log = ensure_model(doms)
    print(log)
    if failed or not ok:
        print("SETUP: some files failed to build (the checks of the properties that depend on them will report it)")
    bad = common.forbidden_audit()
    if bad:
        print("SETUP: forbidden tokens:\n" + "\n".join(bad))
        return 1
    print("SETUP: ok")
    return 0


def main():
    ap = argparse.ArgumentParser()
    ap.add_argument("prop", nargs="?")
    ap.add_argument("--tier", default=os.environ.get("VERIF_TIER", "quick"))
    ap.add_argument("--replay")
    ap.add_argument("--setup", action="store_true")
    a = ap.parse_args()
    if a.setup:
        sys.exit(setup())
    prop = a.prop
    tier = a.tier if a.tier in ("quick", "thorough") else "quick"
    seed = int(os.environ.get("VERIF_SEED", "0") or 0)
    ctx = Ctx(prop, tier, seed)
    mod = importlib.import_module("props." + prop.lower())
    domains = list(getattr(mod, "DOMAINS", ["Design"]))
    common.DEFAULT_DOMAIN[0] = domains[0]

    if a.replay:
        data = json.load(open(a.replay))
        still = mod.replay(ctx, data["replay"])
        print(("REPLAY: still fails: " if still else "REPLAY: no longer fails: ") + data.get("what", ""))
        sys.exit(1 if still else 0)

    tie_problems = []
    dev = os.environ.get("VERIF_DEV") == "1"   # development only: skip make / full extraction
    if dev:
        obligations, discharged, axioms, theorems, problems = common.property_audit(prop)
        tie_problems += problems
    else:
      with common.build_lock():
        extra_files = list(getattr(mod, "EXTRA_PROPERTY_FILES", []))
        ok, log = common.ensure_build(["theories/Properties/%s.vo" % x for x in [prop] + extra_files])
        if not ok:
            tie_problems.append("coq build failed: " + log.strip()[-600:])
        ok, log = ensure_model(domains)
        if not ok:
            tie_problems.append("model extraction/driver build failed: " + log.strip()[-600:])
        bad = common.forbidden_audit()
        if bad:
            tie_problems.append("forbidden tokens in development: " + "; ".join(bad[:5]))
        obligations, discharged, axioms, theorems, problems = common.property_audit(prop)
        tie_problems += problems
        # further theorem files this property's check relies on (same discipline, same audit)
        for x in extra_files:
            o2, d2, a2, t2, p2 = common.property_audit(x)
            obligations += o2
            discharged += d2
            axioms = sorted(set(axioms) | set(a2))
            theorems = list(theorems) + list(t2)
            tie_problems += p2

    res = Result()
    try:
        mod.run(ctx, res)
    except Exception:
        tb = traceback.format_exc()
        res.violations.append(Violation("harness-crash", "check harness raised: " + tb.strip().split("\n")[-1],
                                        {"traceback": tb}, failing_input=False))
    if tier == "thorough" and not tie_problems:
        r = common.sh("timeout 1500 coqchk -silent -o -Q theories SP SP.Properties.%s 2>&1 | tail -40" % prop, cwd=common.COQ)
        res.extra["coqchk"] = r.stdout.strip()[-1500:]
        if r.returncode != 0 or "rror" in r.stdout:
            tie_problems.append("coqchk failed: " + r.stdout.strip()[-300:])
    for p in tie_problems:
        res.violations.append(Violation("proof-obligation", p, {"theorem_file": "coq/theories/Properties/%s.v" % prop,
                                                                "problem": p}, failing_input=False))

    known = [k for k in common.load_known() if k.get("property") == prop and k.get("status") == "open"]
    known_sigs = {k["sig"]: k for k in known}
    exit_code = 0
    nviol = 0
    seen = set()
    # concrete failing inputs first; a broken tie is reported as such only if no
    # concrete failing input explains it
    concrete = [v for v in res.violations if v.failing_input]
    ties = [v for v in res.violations if not v.failing_input]
    unlisted_concrete = [v for v in concrete if v.sig not in known_sigs]
    for v in concrete:
        if v.sig in seen:
            continue
        seen.add(v.sig)
        if v.sig in known_sigs:
            print("KNOWN-FINDING: property=%s %s [%s]" % (prop, known_sigs[v.sig].get("what", v.what), v.sig))
        else:
            path = common.write_replay(prop, v)
            print("VIOLATION property=%s replay=%s" % (prop, path))
            print("  # " + v.what[:600].replace("\n", " "))
            nviol += 1
            exit_code = 1
    if ties and not unlisted_concrete:
        # every tie problem goes in one replay file
        v = Violation("tie-broken", "; ".join(t.what for t in ties)[:2000],
                      {"broken": [t.replay for t in ties], "what": [t.what for t in ties]}, failing_input=False)
        path = common.write_replay(prop, v)
        print("VIOLATION property=%s replay=%s no-failing-input-found" % (prop, path))
        print("  # " + v.what[:600].replace("\n", " "))
        nviol += 1
        exit_code = 1
    level = getattr(mod, "LEVEL", "proof")
    if level not in ("exploration", "fault_enumeration", "model_checking", "proof", "translation_validation", "other"):
        res.extra["level_detail"] = level
        level = "proof"
    res.extra["known_findings_reported"] = sorted(s for s in seen if s in known_sigs)
    common.write_evidence(ctx, res, level, obligations, discharged, axioms, theorems, nviol)
    print("%s %s tier=%s seed=%d evaluations=%d nontrivial=%d obligations=%d/%d wall=%.1fs -> %s" % (
        prop, getattr(mod, "TITLE", ""), tier, seed, res.evaluations, len(res.nontrivial), discharged, obligations,
        time.time() - ctx.t0, "FAIL" if exit_code else "ok"))
    sys.exit(exit_code)


if __name__ == "__main__":
    main()
