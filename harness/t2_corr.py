"""T2(c) per run, on the simplest fragment (a single CrossBlock of plain factors, constraints among
MinimumTrials / AtMostKInARow / AtLeastKInARow / ExactlyKInARow / ExactlyK / Exclude / Pin):

  flat:  Front/CreateFlat.v create_flat (Front/PlainInput.v plain_input p)  ==  flat record of the real block
  sem:   Encode/CodeSem.v code_sem (that flat)  ~  Design/DocSem.v doc_sem p   (relation sem_eqv of
         Design/SemEqv.v: everything equal, crossing multiplicities as sets; it implies equal valid_b)

run(programs) -> list of (index, result_line); script: t2_corr.py N seed
"""
import os
import sys

sys.path.insert(0, os.path.dirname(os.path.abspath(__file__)))

import common        # noqa: E402
import docsem_corr   # noqa: E402
import flat as flatmod  # noqa: E402
import ir            # noqa: E402


def real_flat_wire(program):
    try:
        with ir.quiet():
            built = ir.build(program)
            if built.errors:
                return None
            blk = ir.main_block(built, program)
        if blk is None:
            return None
        return flatmod.flat_wire(blk)
    except Exception:  # noqa: BLE001
        return None


def run(programs):
    lines, idx, out = [], [], [None] * len(programs)
    for i, p in enumerate(programs):
        try:
            w = docsem_corr.program_wire(p)
        except docsem_corr.NotAProgram:
            out[i] = "notaprogram"
            continue
        rf = real_flat_wire(p)
        lines.append("(t2plain %s %s)" % (w, rf if rf is not None else "none"))
        idx.append(i)
    if lines:
        for i, r in zip(idx, common.run_model(lines, domain="T2")):
            out[i] = r
    return out


def on_guard(program):
    """the guard of the T2(c) statement, as far as it can be read off the program: not (complete
    crossing required and a level of a crossed factor excluded)"""
    blk = {b["id"]: b for b in program["blocks"]}[program["main"]]
    cmap = {c["id"]: c for c in program["constraints"]}
    crossed_exclude = any(cmap[c]["kind"] == "Exclude" and cmap[c]["level"][0] in blk.get("crossing", [])
                          for c in blk.get("constraints", []))
    return not (blk.get("rcc", True) and crossed_exclude)


def compare(programs, stats=None):
    """-> list of (index, result_line) that break the tie: the created flat differs from the real one
    (any program in the fragment), or code_sem and doc_sem are not sem_eqv on a program inside the guard.
    stats (optional dict) counts the result lines ('outside' = not in the fragment)."""
    res = run(programs)
    bad = []
    for i, (q, r) in enumerate(zip(programs, res)):
        if stats is not None:
            stats[r] = stats.get(r, 0) + 1
        # the theorem T2c_plain_sem_eqv: inside the (Coq-evaluated) guard the two normal forms are sem_eqv;
        # the created flat record equals the real one everywhere in the fragment
        if r.startswith("!") or "flat=diff" in r or "fails=diff" in r or ("sem=diff" in r and r.startswith("guard=true")):
            bad.append((i, r))
    return bad


def plain_programs(rng, n):
    """single CrossBlocks of plain factors; weights only on crossed factors in half of them"""
    import gen_design
    out = []
    while len(out) < n:
        nb = rng.choice([1, 2, 2, 3])
        factors = [gen_design.simple_factor(rng, i, weighted_p=rng.choice([0.0, 0.3])) for i in range(nb)]
        fids = list(range(nb))
        design = list(fids)
        if rng.random() < 0.2:
            rng.shuffle(design)
        cr = rng.sample(fids, rng.choice([1, 1, 2, min(3, nb)]) if nb > 1 else 1)
        cr = cr[:nb]
        if rng.random() < 0.05:
            cr = []
        cons = []
        for _ in range(rng.choice([0, 1, 1, 2, 3])):
            cons.append(gen_design.rand_constraint(rng, len(cons), factors, fids, 4,
                                                   kinds=["AtMostKInARow", "AtLeastKInARow", "ExactlyKInARow", "ExactlyK",
                                                          "Exclude", "Exclude", "Pin", "AtMostKInARow-factor"]))
        if rng.random() < 0.4:
            cons.append({"id": len(cons), "kind": "MinimumTrials", "trials": rng.choice([1, 3, 5, 6, 7, 9, 13])})
        out.append({"factors": factors, "constraints": cons,
                    "blocks": [{"id": 0, "kind": "CrossBlock", "design": design, "crossing": cr,
                                "constraints": [c["id"] for c in cons], "rcc": rng.random() < 0.5}], "main": 0})
    return out


# ---------------------------------------------------------------------------------------------------
# T2(d): within-trial derived factors (Front/DerivedInput.v derived_input; driver command t2derived)

def real_flat_or_error(program):
    """flat wire of the real block | "(err ExcName)" when the constructor raises | "none" """
    try:
        with ir.quiet():
            built = ir.build(program)
            if built.errors:
                main = ("block", program["main"])
                if set(built.errors) == {main}:
                    return "(err %s)" % built.errors[main][1]
                return "none"
            blk = ir.main_block(built, program)
        if blk is None:
            return "none"
        return flatmod.flat_wire(blk)
    except Exception:  # noqa: BLE001
        return "none"


def run_derived(programs):
    lines, idx, out = [], [], [None] * len(programs)
    for i, p in enumerate(programs):
        try:
            w = docsem_corr.program_wire(p)
        except docsem_corr.NotAProgram:
            out[i] = "notaprogram"
            continue
        lines.append("(t2derived %s %s)" % (w, real_flat_or_error(p)))
        idx.append(i)
    if lines:
        for i, r in zip(idx, common.run_model(lines, domain="T2")):
            out[i] = r
    return out


def compare_derived(programs, stats=None):
    """-> list of (index, result_line) that break the tie on the derived fragment: the created flat record
    (or the ValueError of an ambiguous derived level) differs from the real constructor's, anywhere in the
    fragment; or code_sem and doc_sem are not sem_eqv_t on a program inside the Coq-evaluated guard
    (t2d_guard, Front/DerivedGuard.v), as decided by the extracted checker sem_eqv_tb (sound: Properties/T2d.v)
    and, redundantly, by the driver's own comparison - the two verdicts must agree on every program."""
    res = run_derived(programs)
    bad = []
    for i, r in enumerate(res):
        if stats is not None:
            stats[r] = stats.get(r, 0) + 1
        # semb: the extracted checker sem_eqv_tb (T2d_checker_sound); sem: the driver's own comparison
        if (r.startswith("!") or "flat=diff" in r or "fails=diff" in r
                or (r.startswith("guard=true") and ("sem=diff" in r or "semb=false" in r))
                or ("sem=same" in r) != ("semb=true" in r)):
            bad.append((i, r))
    return bad


def derived_programs(rng, n):
    """single CrossBlocks over simple factors and within-trial derived factors of them (the Stroop shape):
    the derived factor crossed or not, constraints (Exclude, row kinds, Pin) on simple and derived levels,
    weights, else levels, now and then a table that overlaps / leaves a tuple uncovered / has an empty level"""
    import gen_design
    out = []
    while len(out) < n:
        nb = rng.choice([2, 2, 2, 3])
        factors = [gen_design.simple_factor(rng, i, weighted_p=rng.choice([0.0, 0.0, 0.3])) for i in range(nb)]
        nd = rng.choice([1, 1, 1, 2])
        for j in range(nd):
            defect = rng.choice([None] * 10 + ["overlap", "uncovered"])
            d = gen_design.derived_factor(rng, nb + j, factors[:nb], wtype="within", defect=defect)
            if rng.random() < 0.08 and len(d["levels"]) > 1 and not d["levels"][0].get("else"):
                # a level nothing matches: move its table to the next explicit level
                tgt = [l for l in d["levels"][1:] if not l.get("else")]
                if tgt:
                    tgt[0]["table"] = tgt[0]["table"] + d["levels"][0]["table"]
                    d["levels"][0]["table"] = []
            factors.append(d)
        fids = list(range(nb + nd))
        design = list(fids)
        if rng.random() < 0.15:
            rng.shuffle(design)
        if rng.random() < 0.1 and nd == 2:
            design.remove(nb + 1)
        ncr = rng.choice([1, 2, 2, 3])
        cr = rng.sample(design, min(ncr, len(design)))
        if rng.random() < 0.5:
            # the Stroop shapes: the derived factor crossed with one of its arguments, or the basic factors only
            cr = rng.choice([[0, 1], [nb], [0, nb], [nb, 1], list(range(nb))])
        if rng.random() < 0.03:
            cr = []
        if rng.random() < 0.8:
            # weights on crossed factors only (a weighted basic factor outside the crossing is desugared
            # by the constructor, which create_flat does not model)
            for f in factors[:nb]:
                if f["id"] not in cr:
                    f["levels"] = [[nm, 1] for nm, _ in f["levels"]]
        cons = []
        for _ in range(rng.choice([0, 1, 1, 2, 3])):
            cons.append(gen_design.rand_constraint(rng, len(cons), factors, design, 4,
                                                   kinds=["AtMostKInARow", "AtLeastKInARow", "ExactlyKInARow", "ExactlyK",
                                                          "Exclude", "Exclude", "Exclude", "Pin", "AtMostKInARow-factor"]))
        if rng.random() < 0.3:
            cons.append({"id": len(cons), "kind": "MinimumTrials", "trials": rng.choice([1, 3, 5, 6, 7, 9, 13])})
        out.append({"factors": factors, "constraints": cons,
                    "blocks": [{"id": 0, "kind": "CrossBlock", "design": design, "crossing": cr,
                                "constraints": [c["id"] for c in cons], "rcc": rng.random() < 0.5}], "main": 0})
    return out


def main_derived(argv):
    import random
    n = int(argv[2]) if len(argv) > 2 else 1500
    seed = int(argv[3]) if len(argv) > 3 else 1
    rng = random.Random(seed)
    progs = derived_programs(rng, n)
    res = run_derived(progs)
    tally, examples = {}, {}
    for q, r in zip(progs, res):
        tally[r] = tally.get(r, 0) + 1
        examples.setdefault(r, q)
    print("programs: %d" % len(progs))
    for k in sorted(tally, key=lambda k: -tally[k]):
        print("%6d  %s" % (tally[k], k))
    if "-v" in argv:
        for k in sorted(tally):
            if "diff" in k or k.startswith("!"):
                print("--- %s\n%s" % (k, examples[k]))
    return 0


def main(argv):
    import random
    import gen_design
    n = int(argv[1]) if len(argv) > 1 else 1500
    seed = int(argv[2]) if len(argv) > 2 else 1
    rng = random.Random(seed)
    progs = plain_programs(rng, n)
    for _ in range(n // 3):
        q = gen_design.gen_program(rng, 20000, shape="cross")
        if q is not None:
            progs.append(q)
    progs += [q for _, q in gen_design.corpus()]
    res = run(progs)
    tally = {}
    examples = {}
    for q, r in zip(progs, res):
        tally[r] = tally.get(r, 0) + 1
        examples.setdefault(r, q)
    print("programs: %d" % len(progs))
    for k in sorted(tally, key=lambda k: -tally[k]):
        print("%6d  %s" % (tally[k], k))
    for k in sorted(tally):
        if ("diff" in k and k.startswith("guard=true")) or k.startswith("!"):
            print("--- %s\n%s" % (k, examples[k]))
    return 0


if __name__ == "__main__":
    sys.exit(main_derived(sys.argv) if len(sys.argv) > 1 and sys.argv[1] == "derived" else main(sys.argv))
