"""Fail-closed analyser of attribute writes of the library's public entry points.

    analyse(entries, repo) -> Report(writes, unrecognised, reached, info)

`entries` are (module-file, qualified function name) pairs, e.g.
("main.py", "print_experiments") or ("cross_block.py", "Nest.__init__").
The analyser parses the *source* of `repo`/sweetpea/_internal (Python `ast`, nothing
is imported or run), follows calls by name (functions by name, methods by method
name over every class of the analysed modules - an over-approximation of dynamic
dispatch) and collects every store into an attribute of an object that can be
reached from an argument:

    x.attr = v        x.attr += v       x.attr[k] = v      del x.attr
    x.attr.append/extend/add/pop/update/...(..)             setattr(x, "attr", v)
    the same through a local alias  (a = x.attr; a.append(v);  for e in x.attr: e.b = v)

A write is reported as (owner, attr) where owner is the class family of the
object written to: the class of `self` ("Block" for every subclass of Block,
"Constraint", "Factor", "Level"), or the family a parameter/loop-variable name
stands for (block/ct/c/f/level/... - table NAME_OWNER).  Objects created inside the
analysed call (constructor call, literal, comprehension, copy) are `fresh`: stores
into them are not writes on the caller's objects and are dropped, and so are the
per-call helper classes of FRESH_CLASSES.

Fail-closed: every construct the analyser does not understand - a call it cannot
resolve, a store through an expression it cannot classify, exec/eval/vars/__dict__,
setattr with a computed name, a tracked object handed to code that is not analysed -
is listed in `unrecognised`; the checks treat a non-empty list as a broken tie, never
as "no writes".
"""
import ast
import os

ANALYSED = [
    "main.py", "block.py", "cross_block.py", "constraint.py", "base_constraint.py", "primitive.py",
    "derivation_processor.py", "design_graph.py", "design_partition.py", "sample_conversion.py",
    "check_mismatch.py", "level.py", "weight.py", "iter.py", "backend.py", "beforestart.py",
    "distribution.py",
    "sampling_strategy/base.py", "sampling_strategy/iterate_sat.py", "sampling_strategy/iterate.py",
    "sampling_strategy/uniform.py", "sampling_strategy/cmsgen.py", "sampling_strategy/unigen.py",
    "sampling_strategy/random.py", "sampling_strategy/smgen.py", "sampling_strategy/iterate_ilp.py",
]

# modules whose functions are leaves: they are handed numbers, strings, formulas, CNF objects or
# freshly built structures, never a block / constraint / factor / level (checked: see opaque_call)
OPAQUE_MODULES = {
    "sweetpea._internal.core", "sweetpea._internal.core.cnf", "sweetpea._internal.logic",
    "sweetpea._internal.sampling_strategy.scattered_map_core", "sweetpea._internal.combinatorics",
    "sweetpea._internal.core.generate.sample_ilp", "sweetpea._internal.core.generate.utility",
    "sweetpea._internal.server", "sweetpea._internal.metrics",
}

# class families
FAMILY_ROOTS = {"Block": "Block", "Constraint": "Constraint", "Factor": "Factor", "Level": "Level",
                "Window": "Window", "Distribution": "Distribution", "Gen": "Gen"}

# what a parameter / loop variable / attribute name stands for
NAME_OWNER = {
    "block": "Block", "_block": "Block", "outer_block": "Block(arg)", "inner_block": "Block(arg)", "b": "Block(arg)",
    "blocks": "Block(arg)",
    "ct": "Constraint", "c": "Constraint", "constraint": "Constraint", "constraints": "Constraint",
    "orig_constraints": "Constraint", "all_constraints": "Constraint", "outer_constraints": "Constraint(copy)",
    "inner_constraints": "Constraint", "exclusions": "Constraint", "continue_constraints": "Constraint",
    "f": "Factor", "factor": "Factor", "factors": "Factor", "design": "Factor", "act_design": "Factor",
    "orig_design": "Factor", "af": "Factor", "df": "Factor", "cFactor": "Factor", "continuous_factors": "Factor",
    "crossing": "Factor", "main_factor": "Factor", "design_factor": "Factor", "dependent": "Factor",
    "flat_f": "Factor(new)", "derived_f": "Factor(new)",
    "l": "Level", "level": "Level", "levels": "Level", "ll": "Level", "al": "Level", "excluded_level": "Level",
    "first_level": "Level", "use_l": "Level", "expect_l": "Level",
    "backend_request": "BackendRequest", "components_shape": "RandomComponentsShape", "enumerator": "UCSolutionEnumerator",
    "window": "Window", "w": "Window", "dist": "Distribution", "distribution": "Distribution",
}

# per-function overrides: in the combinators the block parameters are the pre-existing (shared) blocks
PARAM_OWNER = {
    ("Repeat", "__init__"): {"block": "Block(arg)"},
}

# helper classes instantiated per call (never reachable from the caller's arguments)
FRESH_CLASSES = {
    "BackendRequest", "LowLevelRequest", "SamplingResult", "UCSolutionEnumerator", "DesignPartitions",
    "PermutationMemo", "RandomComponentsShape", "DesignGraph", "BeforeStart", "BlockGeometry", "HiddenName",
    "DerivationProcessor", "RandomGen",
}

MUTATORS = {"append", "extend", "add", "pop", "update", "insert", "remove", "clear", "sort", "reverse",
            "setdefault", "popitem", "discard", "appendleft", "popleft", "difference_update",
            "intersection_update", "symmetric_difference_update", "__setitem__", "__delitem__"}

PURE_METHODS = {
    "get", "items", "keys", "values", "format", "join", "index", "copy", "count", "startswith", "endswith",
    "split", "strip", "lower", "upper", "replace", "intersection", "union", "difference", "issubset", "isdisjoint",
    "from_iterable", "writerow", "writer", "getenv", "signature", "flush", "write", "nodes", "edges",
    "add_node", "add_edge", "add_nodes_from", "add_edges_from", "draw", "show", "reset",
    "class_name", "randrange", "randint", "shuffle", "random", "choice", "choices", "uniform", "gauss",
    "expovariate", "lognormvariate", "normalvariate", "predecessors", "successors", "in_degree", "subgraph",
    "to_dict", "to_generation_request",
}

# attributes that hold functions supplied by the user or pure helpers (called with names / numbers / formulas)
CALLABLE_ATTRS = {"predicate", "constraint_function", "cnf_fn", "func", "function"}

BUILTINS = {
    "len", "list", "range", "map", "filter", "zip", "print", "isinstance", "issubclass", "hasattr", "getattr", "max",
    "min", "sum", "any", "all", "sorted", "reversed", "enumerate", "tuple", "dict", "set", "frozenset", "str", "int",
    "float", "bool", "abs", "pow", "type", "id", "hash", "iter", "next", "repr", "open", "super", "callable", "round",
    "divmod", "ValueError", "RuntimeError", "TypeError", "KeyError", "Exception", "NotImplementedError",
    "IndexError", "AssertionError", "StopIteration", "TimeoutError", "object", "slice", "format", "chr", "ord",
}
# names imported from outside sweetpea: pure helpers (never handed a tracked object as such)
EXTERNAL_OK_MODULES = {"typing", "itertools", "functools", "math", "copy", "networkx", "random", "os", "csv", "time",
                       "inspect", "abc", "dataclasses", "enum", "operator", "numpy", "tqdm", "sys", "collections",
                       "warnings", "json", "re"}
# sweetpea modules that only test types (isinstance) of what they are given
PURE_SWEETPEA_MODULES = {"sweetpea._internal.argcheck"}
TRACKED_FAMILIES = {"Block", "Block(arg)", "Constraint", "Constraint(copy)", "Factor", "Level"}
FORBIDDEN_NAMES = {"exec", "eval", "vars", "globals", "locals", "delattr", "compile", "__import__"}


class Report:
    def __init__(self):
        self.writes = {}          # (owner, attr) -> [where, ...]
        self.unrecognised = []    # "file:line: what"
        self.reached = []         # qualified names of analysed functions
        self.param_item_writes = set()
        self.global_writes = set()
        self.fresh_dropped = set()

    def pairs(self):
        return sorted(self.writes)


class _Index:
    def __init__(self, repo):
        self.root = os.path.join(repo, "sweetpea", "_internal")
        self.funcs = {}      # (file, qualname) -> (FunctionDef, classname or None, file)
        self.by_name = {}    # bare function name -> [(file, qualname)]
        self.methods = {}    # method name -> [(file, qualname)]
        self.classes = {}    # class name -> (file, [base names])
        self.imports = {}    # file -> {local name: module}
        self.stars = {}      # file -> [modules imported with *]
        self.missing = []
        for rel in ANALYSED:
            path = os.path.join(self.root, rel)
            if not os.path.exists(path):
                self.missing.append(rel)
                continue
            tree = ast.parse(open(path).read(), filename=path)
            imp = {}
            self.imports[rel] = imp
            for node in tree.body:
                if isinstance(node, ast.ImportFrom):
                    for a in node.names:
                        if a.name == "*":
                            self.stars.setdefault(rel, []).append(node.module or "")
                        else:
                            imp[a.asname or a.name] = node.module or ""
                elif isinstance(node, ast.Import):
                    for a in node.names:
                        imp[(a.asname or a.name).split(".")[0]] = a.name
                elif isinstance(node, (ast.FunctionDef, ast.AsyncFunctionDef)):
                    self.funcs[(rel, node.name)] = (node, None, rel)
                    self.by_name.setdefault(node.name, []).append((rel, node.name))
                elif isinstance(node, ast.ClassDef):
                    bases = []
                    for b in node.bases:
                        if isinstance(b, ast.Name):
                            bases.append(b.id)
                        elif isinstance(b, ast.Attribute):
                            bases.append(b.attr)
                    self.classes[node.name] = (rel, bases)
                    for sub in node.body:
                        if isinstance(sub, (ast.FunctionDef, ast.AsyncFunctionDef)):
                            q = node.name + "." + sub.name
                            self.funcs[(rel, q)] = (sub, node.name, rel)
                            self.methods.setdefault(sub.name, []).append((rel, q))
                            # name-mangled private methods are called as self.__m / Cls.__m
                            if sub.name.startswith("__") and not sub.name.endswith("__"):
                                self.methods.setdefault("_%s%s" % (node.name, sub.name), []).append((rel, q))

    def finish_star_imports(self):
        """`from M import *`: the importing file sees M's own imports too."""
        for rel, mods in self.stars.items():
            for mod in mods:
                for rel2, imp2 in self.imports.items():
                    if mod.endswith(rel2[:-3].replace("/", ".")):
                        for k, v in imp2.items():
                            self.imports[rel].setdefault(k, v)

    def family(self, cls):
        seen = set()
        todo = [cls]
        while todo:
            c = todo.pop()
            if c in seen:
                continue
            seen.add(c)
            if c in FAMILY_ROOTS:
                return FAMILY_ROOTS[c]
            if c in self.classes:
                todo.extend(self.classes[c][1])
        return cls

    def constructor(self, cls):
        out = []
        seen = set()
        todo = [cls]
        while todo:
            c = todo.pop()
            if c in seen or c not in self.classes:
                continue
            seen.add(c)
            rel = self.classes[c][0]
            for m in ("__init__", "__post_init__", "__new__"):
                if (rel, c + "." + m) in self.funcs:
                    out.append((rel, c + "." + m))
            todo.extend(self.classes[c][1])
        return out


FRESH = ("fresh",)


class _FuncAnalysis(ast.NodeVisitor):
    """One function body, statements in source order, with a small environment
    name -> FRESH | ("alias", owner, attr) | ("param", owner-or-None) | ("unknown",)."""

    def __init__(self, index, report, key, node, cls, rel, self_new=False):
        self.self_new = self_new
        self.ix = index
        self.rep = report
        self.key = key
        self.node = node
        self.cls = cls
        self.rel = rel
        self.calls = set()
        self.env = {}
        self.local_defs = set()
        over = PARAM_OWNER.get((cls, node.name), {}) if cls else {}
        args = node.args
        for a in list(args.posonlyargs) + list(args.args) + list(args.kwonlyargs) + \
                ([args.vararg] if args.vararg else []) + ([args.kwarg] if args.kwarg else []):
            self.env[a.arg] = ("param", over.get(a.arg, NAME_OWNER.get(a.arg)))
        if cls and args.args and args.args[0].arg == "self":
            fam = self.ix.family(cls)
            if (node.name in ("__init__", "__post_init__", "__new__", "__deepcopy__") or self_new) and fam != "Block":
                fam += "(new)"      # the object under construction (also in methods a constructor calls on self)
            self.env["self"] = ("param", fam)
        if cls and args.args and args.args[0].arg == "cls":
            self.env["cls"] = FRESH

    # ---------------------------------------------------------------- helpers
    def self_is_new(self):
        k = self.env.get("self")
        return bool(k) and k != FRESH and k[0] == "param" and bool(k[1]) and k[1].endswith("(new)")

    def where(self, node):
        return "%s:%d" % (self.rel, getattr(node, "lineno", 0))

    def unrec(self, node, what):
        self.rep.unrecognised.append("%s (%s): %s" % (self.where(node), self.key[1], what))

    def write(self, owner, attr, node):
        if owner is None:
            return
        if owner in FRESH_CLASSES or owner.endswith("(new)"):
            self.rep.fresh_dropped.add((owner, attr))
            return
        self.rep.writes.setdefault((owner, attr), []).append("%s %s" % (self.where(node), self.key[1]))

    def classify(self, e):
        """Kind of the object an expression evaluates to:
        FRESH | ("obj", owner) - an object of that family reachable from the arguments |
        ("attr", owner, attr) - the value of attribute attr of such an object | ("unknown",)."""
        if isinstance(e, ast.Name):
            k = self.env.get(e.id)
            if k is None:
                if e.id in self.ix.classes or e.id in BUILTINS or e.id in self.ix.imports.get(self.rel, {}) \
                        or e.id in self.ix.by_name or e.id in ("True", "False", "None"):
                    return FRESH
                return ("unknown",)
            if k == FRESH:
                return FRESH
            if k[0] == "param":
                return ("obj", k[1]) if k[1] else ("paramobj", e.id)
            if k[0] == "alias":
                return ("attr", k[1], k[2])
            if k[0] == "elem":
                return ("obj", k[1])
            return ("unknown",)
        if isinstance(e, ast.Attribute):
            base = self.classify(e.value)
            if base == FRESH:
                return FRESH
            if base[0] == "obj":
                return ("attr", base[1], e.attr)
            if base[0] == "attr":
                # x.a.b : the object held in x.a
                return ("attr", NAME_OWNER.get(base[2], "?" + base[2]), e.attr)
            if base[0] == "paramobj":
                return ("attr", "?" + base[1], e.attr)
            return ("unknown",)
        if isinstance(e, ast.Subscript):
            base = self.classify(e.value)
            if base == FRESH:
                return FRESH
            if base[0] == "attr":
                return ("obj", NAME_OWNER.get(base[2], "?" + base[2]))   # an element of x.attr
            if base[0] in ("obj", "paramobj"):
                return ("unknown-elem",)
            return ("unknown",)
        if isinstance(e, ast.Call) and isinstance(e.func, ast.Name) and e.func.id == "cast" and len(e.args) == 2:
            return self.classify(e.args[1])     # typing.cast is the identity
        if isinstance(e, ast.Call) and len(e.args) == 1 and (
                (isinstance(e.func, ast.Name) and e.func.id == "copy") or
                (isinstance(e.func, ast.Attribute) and e.func.attr == "copy" and isinstance(e.func.value, ast.Name)
                 and e.func.value.id == "copy")):
            return self.classify(e.args[0])     # a shallow copy shares every attribute value with the original
        if isinstance(e, (ast.Constant, ast.List, ast.Tuple, ast.Dict, ast.Set, ast.ListComp, ast.DictComp, ast.SetComp,
                          ast.GeneratorExp, ast.BinOp, ast.UnaryOp, ast.BoolOp, ast.Compare, ast.JoinedStr, ast.Lambda,
                          ast.Call)):
            # a call result is a new value for the purpose of *stores*; what a call does to its arguments is
            # accounted for by analysing the callee.  Exception: accessor-style calls returning the object's own
            # containers are not used as store targets in the analysed code (a store through one is `unknown`).
            if isinstance(e, ast.BoolOp) or isinstance(e, ast.IfExp):
                return ("unknown",)
            return FRESH
        if isinstance(e, ast.IfExp):
            a, b = self.classify(e.body), self.classify(e.orelse)
            return a if a == b else ("unknown",)
        if isinstance(e, ast.Starred):
            return self.classify(e.value)
        return ("unknown",)

    def bind(self, target, value_kind, elem=False):
        if isinstance(target, ast.Name):
            if value_kind == FRESH:
                self.env[target.id] = FRESH
            elif value_kind[0] == "attr":
                if elem:
                    self.env[target.id] = ("elem", NAME_OWNER.get(target.id, NAME_OWNER.get(value_kind[2], "?" + value_kind[2])))
                else:
                    self.env[target.id] = ("alias", value_kind[1], value_kind[2])
            elif value_kind[0] == "obj":
                self.env[target.id] = ("elem", value_kind[1]) if value_kind[1] else ("unknown",)
            elif value_kind[0] == "paramobj":
                # iterating over / copying a plain parameter: elements named after a family belong to it
                self.env[target.id] = ("elem", NAME_OWNER[target.id]) if target.id in NAME_OWNER else FRESH
            else:
                self.env[target.id] = ("elem", NAME_OWNER[target.id]) if target.id in NAME_OWNER else ("unknown",)
        elif isinstance(target, (ast.Tuple, ast.List)):
            for t in target.elts:
                self.bind(t, value_kind if value_kind == FRESH else ("unknown",) if not elem else value_kind, elem)
        elif isinstance(target, ast.Starred):
            self.bind(target.value, value_kind, elem)

    def store(self, target, node):
        """A store through `target` (Attribute or Subscript)."""
        if isinstance(target, ast.Attribute):
            base = self.classify(target.value)
            if base == FRESH:
                self.rep.fresh_dropped.add(("fresh", target.attr))
                return
            if base[0] == "obj":
                self.write(base[1], target.attr, node)
            elif base[0] == "attr":
                self.write(NAME_OWNER.get(base[2], "?" + base[2]), target.attr, node)
            elif base[0] == "paramobj":
                self.write("?" + base[1], target.attr, node)
            else:
                self.unrec(node, "store into attribute %r of an object the analyser cannot classify: %s"
                           % (target.attr, ast.unparse(target.value)))
        elif isinstance(target, ast.Subscript):
            base = self.classify(target.value)
            if base == FRESH:
                return
            if base[0] == "attr":
                self.write(base[1], base[2], node)
            elif base[0] == "paramobj":
                self.rep.param_item_writes.add((self.key[1], base[1]))
            elif base[0] == "obj":
                # x[k] = v on a tracked object itself (container protocol)
                self.write(base[1], "[]", node)
            else:
                self.unrec(node, "item store into an object the analyser cannot classify: %s" % ast.unparse(target.value))
        elif isinstance(target, (ast.Tuple, ast.List)):
            for t in target.elts:
                if not isinstance(t, ast.Name):
                    self.store(t, node)

    # ---------------------------------------------------------------- statements
    def run(self):
        for d in self.node.decorator_list:
            name = d.id if isinstance(d, ast.Name) else d.attr if isinstance(d, ast.Attribute) else \
                (d.func.id if isinstance(d, ast.Call) and isinstance(d.func, ast.Name) else None)
            if name not in ("staticmethod", "classmethod", "abstractmethod", "property", "dataclass"):
                self.unrec(d, "decorator %s" % ast.unparse(d))
        for st in self.node.body:
            self.visit(st)

    def visit_FunctionDef(self, node):
        # nested function: analysed in place, parameters shadow
        self.local_defs.add(node.name)
        saved = dict(self.env)
        for a in node.args.args + node.args.kwonlyargs:
            self.env[a.arg] = ("param", NAME_OWNER.get(a.arg))
        for st in node.body:
            self.visit(st)
        self.env = saved
        self.env[node.name] = FRESH

    def visit_Lambda(self, node):
        saved = dict(self.env)
        for a in node.args.args:
            self.env[a.arg] = ("param", NAME_OWNER.get(a.arg))
        self.visit(node.body)
        self.env = saved

    def _comp(self, node):
        saved = dict(self.env)
        for g in node.generators:
            self.visit(g.iter)
            self.bind(g.target, self.classify(g.iter), elem=True)
            for c in g.ifs:
                self.visit(c)
        if isinstance(node, ast.DictComp):
            self.visit(node.key)
            self.visit(node.value)
        else:
            self.visit(node.elt)
        self.env = saved

    visit_ListComp = visit_SetComp = visit_GeneratorExp = visit_DictComp = _comp

    def visit_ClassDef(self, node):
        self.unrec(node, "class definition inside a function")

    def visit_Global(self, node):
        for n in node.names:
            self.rep.global_writes.add((self.rel, n))

    def visit_Nonlocal(self, node):
        pass   # closure over the enclosing function's locals, which this analysis already shares

    def visit_Assign(self, node):
        self.visit(node.value)
        kind = self.classify(node.value)
        for t in node.targets:
            if isinstance(t, (ast.Attribute, ast.Subscript)):
                self.visit(t.value)
                self.store(t, node)
            elif isinstance(t, (ast.Tuple, ast.List)) and any(not isinstance(x, ast.Name) for x in ast.walk(t)
                                                               if isinstance(x, (ast.Attribute, ast.Subscript))):
                self.store(t, node)
                self.bind(t, kind)
            else:
                self.bind(t, kind)

    def visit_AnnAssign(self, node):
        if node.value is not None:
            self.visit(node.value)
            if isinstance(node.target, (ast.Attribute, ast.Subscript)):
                self.store(node.target, node)
            else:
                self.bind(node.target, self.classify(node.value))

    def visit_AugAssign(self, node):
        self.visit(node.value)
        t = node.target
        if isinstance(t, (ast.Attribute, ast.Subscript)):
            self.store(t, node)
        elif isinstance(t, ast.Name):
            k = self.env.get(t.id)
            if k is not None and k != FRESH and k[0] == "alias":
                if isinstance(node.value, (ast.JoinedStr, ast.Constant)) or (
                        isinstance(node.value, ast.BinOp) and isinstance(node.value.left, (ast.JoinedStr, ast.Constant))):
                    self.env[t.id] = FRESH      # str / number: a new object is bound
                else:
                    # a += [..] on an alias of x.attr mutates the list in place
                    self.write(k[1], k[2], node)
            elif k is not None and k != FRESH and k[0] == "param" and k[1]:
                self.unrec(node, "augmented assignment to tracked parameter %s" % t.id)

    def visit_Delete(self, node):
        for t in node.targets:
            if isinstance(t, (ast.Attribute, ast.Subscript)):
                self.store(t, node)

    def visit_For(self, node):
        self.visit(node.iter)
        if isinstance(node.target, (ast.Attribute, ast.Subscript)):
            self.store(node.target, node)
        else:
            self.bind(node.target, self._iter_kind(node.iter), elem=True)
        for st in node.body + node.orelse:
            self.visit(st)

    def _iter_kind(self, it):
        # enumerate(x) / zip(x, y) / list(x) / filter(f, x) / reversed(x): elements of the arguments
        if isinstance(it, ast.Call) and isinstance(it.func, ast.Name) and it.func.id in (
                "enumerate", "zip", "list", "filter", "reversed", "sorted", "tuple", "iter", "set") and it.args:
            kinds = [self.classify(a) for a in it.args if not isinstance(a, ast.Lambda)]
            kinds = [k for k in kinds if k != FRESH]
            if not kinds:
                return FRESH
            return kinds[-1] if it.func.id != "zip" else ("unknown",)
        return self.classify(it)

    def visit_With(self, node):
        for item in node.items:
            self.visit(item.context_expr)
            if item.optional_vars is not None:
                if isinstance(item.optional_vars, (ast.Attribute, ast.Subscript)):
                    self.store(item.optional_vars, node)
                else:
                    self.bind(item.optional_vars, FRESH)
        for st in node.body:
            self.visit(st)

    def visit_NamedExpr(self, node):
        self.visit(node.value)
        self.bind(node.target, self.classify(node.value))

    def visit_Name(self, node):
        if node.id in FORBIDDEN_NAMES and node.id not in self.env:
            self.unrec(node, "use of %s" % node.id)

    def visit_Attribute(self, node):
        if node.attr == "__dict__" and isinstance(node.ctx, ast.Load):
            # reading __dict__ (for __eq__/__repr__) is harmless unless it is subscripted for a store or mutated
            pass
        self.generic_visit(node)

    # ---------------------------------------------------------------- calls
    def visit_Call(self, node):
        for a in node.args:
            self.visit(a)
        for k in node.keywords:
            self.visit(k.value)
        f = node.func
        if isinstance(f, ast.Name):
            self._call_name(node, f.id)
        elif isinstance(f, ast.Attribute):
            self.visit(f.value)
            self._call_attr(node, f)
        elif isinstance(f, ast.Lambda):
            self.visit(f)
        elif isinstance(f, ast.Call):
            self.visit(f)
            self.unrec(node, "call of the result of a call: %s" % ast.unparse(f)[:60])
        elif isinstance(f, ast.Subscript):
            self.visit(f.value)
            self.unrec(node, "call of a subscripted value: %s" % ast.unparse(f)[:60]) \
                if not (isinstance(f.value, ast.Dict)) else None
        else:
            self.unrec(node, "call of %s" % type(f).__name__)

    def tracked_args(self, node):
        out = []
        for a in list(node.args) + [k.value for k in node.keywords]:
            if isinstance(a, ast.Starred):
                a = a.value
            if isinstance(a, ast.Name):
                k = self.env.get(a.id)
                if k is not None and k != FRESH and k[0] in ("elem", "param") and k[1] in TRACKED_FAMILIES:
                    out.append(a.id)
        return out

    def opaque_call(self, node, what):
        """A call into code that is not analysed: fine unless a tracked object itself is handed over."""
        t = self.tracked_args(node)
        if t:
            self.unrec(node, "tracked object(s) %s passed to code that is not analysed: %s" % (", ".join(t), what))

    def _call_name(self, node, name):
        if name in FORBIDDEN_NAMES and name not in self.env:
            self.unrec(node, "call of %s" % name)
            return
        if name == "setattr":
            if len(node.args) == 3 and isinstance(node.args[1], ast.Constant):
                self.store(ast.Attribute(value=node.args[0], attr=node.args[1].value, ctx=ast.Store()), node)
            else:
                base = self.classify(node.args[0]) if node.args else ("unknown",)
                if base != FRESH:
                    self.unrec(node, "setattr with a computed attribute name on %s" % ast.unparse(node.args[0]))
            return
        if name in self.local_defs:
            return
        k = self.env.get(name)
        if k is not None:
            # calling a local value / parameter (callback, predicate, class held in a variable)
            if name in ("proc", "fn", "pred", "predicate", "constraint_function"):
                self.opaque_call(node, "callback " + name)
                return
            if k == FRESH:
                return      # local lambda / def / class: its body is analysed where it is defined
            if k[0] == "alias" and k[2] in CALLABLE_ATTRS:
                self.opaque_call(node, "callable attribute ." + k[2])
                return
            if name == "sampling_strategy" or name == "cls":
                return
            self.unrec(node, "call of local/parameter %s" % name)
            return
        if name in ("deepcopy", "copy"):
            for key in self.ix.methods.get("__deepcopy__", []):
                self.calls.add(key)
            return
        if name in self.ix.classes:
            for key in self.ix.constructor(name):
                self.calls.add(key)
            return
        imp = self.ix.imports.get(self.rel, {})
        if name in self.ix.by_name:
            cands = [k2 for k2 in self.ix.by_name[name] if k2[0] == self.rel]
            if not cands and name in imp:
                mod = imp[name]
                cands = [k2 for k2 in self.ix.by_name[name] if mod.endswith(k2[0][:-3].replace("/", "."))]
            if not cands:
                cands = self.ix.by_name[name]
            for k2 in cands:
                self.calls.add(k2)
            return
        if name in imp:
            mod = imp[name]
            if mod.split(".")[0] in EXTERNAL_OK_MODULES or mod in PURE_SWEETPEA_MODULES:
                return      # generic library code: does not know sweetpea's attributes
            if mod in OPAQUE_MODULES or mod.startswith("sweetpea._internal.core"):
                self.opaque_call(node, "%s.%s" % (mod, name))
                return
            self.unrec(node, "call of %s imported from %s (module not analysed)" % (name, mod))
            return
        if name in BUILTINS:
            return
        if name.startswith("__") and self.cls is None:
            # module-level private helper called with its literal name (main.py: __filter_hidden)
            cands = [k2 for k2 in self.ix.by_name.get(name, [])]
            if cands:
                for k2 in cands:
                    self.calls.add(k2)
                return
        self.unrec(node, "call of unknown name %s" % name)

    def _call_attr(self, node, f):
        m = f.attr
        recv = f.value
        # super().m(...)
        if isinstance(recv, ast.Call) and isinstance(recv.func, ast.Name) and recv.func.id == "super":
            for key in self.ix.methods.get(m, []):
                self.calls.add(key + (self.self_is_new(),))
            return
        # module.function(...)
        if isinstance(recv, ast.Name) and recv.id in self.ix.imports.get(self.rel, {}) and recv.id not in self.env:
            mod = self.ix.imports[self.rel][recv.id]
            if mod.split(".")[0] in EXTERNAL_OK_MODULES:
                if recv.id == "copy" and m in ("copy", "deepcopy"):
                    for key in self.ix.methods.get("__deepcopy__", []):
                        self.calls.add(key)
                return
        mangled = None
        if m.startswith("__") and not m.endswith("__") and self.cls:
            mangled = "_%s%s" % (self.cls, m)
        cands = list(self.ix.methods.get(mangled, [])) if mangled else []
        if not cands:
            cands = list(self.ix.methods.get(m, []))
        if cands:
            on_new_self = isinstance(recv, ast.Name) and recv.id == "self" and self.self_is_new()
            for key in cands:
                self.calls.add(key + (True,) if on_new_self else key)
        if m in MUTATORS:
            kind = self.classify(recv)
            if kind == FRESH:
                pass
            elif kind[0] == "attr":
                self.write(kind[1], kind[2], node)
            elif kind[0] == "paramobj":
                self.rep.param_item_writes.add((self.key[1], kind[1]))
            elif kind[0] == "obj":
                if not cands:
                    self.write(kind[1], "." + m + "()", node)
            else:
                self.unrec(node, "mutating call .%s() on an object the analyser cannot classify: %s"
                           % (m, ast.unparse(recv)[:80]))
            return
        if cands:
            return
        if m in PURE_METHODS:
            return
        if m in CALLABLE_ATTRS:
            self.opaque_call(node, "callable attribute ." + m)
            return
        if isinstance(recv, ast.Name) and recv.id in self.ix.classes:
            return     # Class.attr(...) on an analysed class without such a method: enum / dataclass helper
        self.unrec(node, "call of method .%s() that no analysed class defines" % m)


def analyse(entries, repo="/repo"):
    ix = _Index(repo)
    ix.finish_star_imports()
    rep = Report()
    for m in ix.missing:
        rep.unrecognised.append("module sweetpea/_internal/%s is missing" % m)
    todo = []
    for rel, q in entries:
        if (rel, q) not in ix.funcs:
            rep.unrecognised.append("entry point %s:%s not found" % (rel, q))
        else:
            todo.append((rel, q))
    seen = set()
    while todo:
        key = todo.pop()
        if key in seen:
            continue
        seen.add(key)
        flag = len(key) == 3
        key = key[:2]
        node, cls, rel = ix.funcs[key]
        fa = _FuncAnalysis(ix, rep, key, node, cls, rel, self_new=flag)
        try:
            fa.run()
        except Exception as e:  # noqa - the analyser itself failing is a broken tie
            rep.unrecognised.append("%s:%s: analyser failed: %s: %s" % (rel, key[1], type(e).__name__, e))
        for k2 in fa.calls:
            if k2 not in seen:
                todo.append(k2)
    rep.reached = sorted(set("%s:%s" % k[:2] for k in seen))
    rep.unrecognised = sorted(set(rep.unrecognised))
    return rep


C19_ENTRIES = [("main.py", n) for n in (
    "synthesize_trials", "print_experiments", "tabulate_experiments", "save_experiments_csv",
    "experiments_to_tuples", "experiments_to_dicts", "sample_mismatch_experiment")]

C18_ENTRIES = [("cross_block.py", c + ".__init__") for c in ("CrossBlock", "MultiCrossBlock", "Repeat", "Merge", "Nest")]


if __name__ == "__main__":
    import sys
    which = sys.argv[1] if len(sys.argv) > 1 else "c19"
    r = analyse(C19_ENTRIES if which == "c19" else C18_ENTRIES, sys.argv[2] if len(sys.argv) > 2 else "/repo")
    print("reached %d functions" % len(r.reached))
    for p in r.pairs():
        print("WRITE", p, r.writes[p][:3])
    for u in r.unrecognised:
        print("UNRECOGNISED", u)
    print("param item writes", sorted(r.param_item_writes))
    print("globals", sorted(r.global_writes))
    print("dropped (fresh)", sorted(r.fresh_dropped))
