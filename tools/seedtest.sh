#!/bin/bash
# usage: seedtest.sh <PROP> <worktree> <seed-id>
# Confirms a seeded change (worktree contains patch.diff + demo.py with the change applied):
#  demo fails with / passes without the change, the suite passes with it, then runs
#  ./check PROP against /repo with the patch applied and undoes it.
P=$1; WT=$2; SID=$3
cd $WT || exit 2
git diff -- . ':!demo.py' ':!patch.diff' > /tmp/seed_$SID.diff
[ -s /tmp/seed_$SID.diff ] || cp patch.diff /tmp/seed_$SID.diff
PYTHONPATH=$WT timeout 900 /venv/bin/python -W ignore demo.py > /tmp/seed_$SID.demo_with 2>&1; WITH=$?
git apply -R /tmp/seed_$SID.diff
PYTHONPATH=$WT timeout 900 /venv/bin/python -W ignore demo.py > /tmp/seed_$SID.demo_without 2>&1; WITHOUT=$?
git apply /tmp/seed_$SID.diff
echo "demo with change: exit $WITH; without: exit $WITHOUT"
PYTHONPATH=$WT timeout 1800 /venv/bin/python -m pytest -q -p no:cacheprovider -n 6 2>&1 | tail -1
if [ -n "$SEED_INPLACE" ]; then
  # the prescribed procedure: patch /repo itself, run, undo
  cd /repo && git apply /tmp/seed_$SID.diff && cd /verif && (./check $P --tier quick > /tmp/seed_$SID.check 2>&1; echo "check exit $?"; grep -A1 "VIOLATION" /tmp/seed_$SID.check | cut -c1-300 | head -6)
  git -C /repo checkout -- . && git -C /repo status --short | head -3
else
  # while other work reads /repo: run the check against the worktree (which has the change applied)
  cd /verif && (VERIF_REPO=$WT ./check $P --tier quick > /tmp/seed_$SID.check 2>&1; echo "check exit $?"; grep -A1 "VIOLATION" /tmp/seed_$SID.check | cut -c1-300 | head -6)
fi
mkdir -p /verif/seeded/$SID && cp /tmp/seed_$SID.diff /verif/seeded/$SID/patch.diff && cp $WT/demo.py /verif/seeded/$SID/demo.py
