#!/usr/bin/env python3
"""Regenerates MANIFEST.json from the table below (kept in one place so that it
stays valid while properties are added)."""
import json
import os

V = os.path.dirname(os.path.abspath(__file__))
props = {json.loads(l)["id"]: json.loads(l) for l in open(os.path.join(V, "properties.jsonl"))}

CLAIMED = {
    # id: (technique, level text, level note, design ref)
    "C10": ("Coq proof (pop-count / two's-complement invariants by induction) + literal correspondence with extracted model + SAT enumeration search",
            "C10_exact proved for every non-empty literal list, every k >= 0 and all three kinds: satisfiable extension iff the count relation holds, extension unique, variables in range; the model reproduces the real clause lists literally on every generated case.",
            "Coq kernel; extraction (ExtrOcamlBasic/String); model hand-written, tied by literal clause-list comparison on ~700 (quick) cases; math.ceil(math.log(n,2)) assumed exact (true below 2^29)", "DESIGN.md §4 C10"),
    "C11": ("Coq proof (Tseitin cache invariant, definitional blocks) + literal correspondence + truth-table search",
            "Tseitin conversion proved a unique definitional extension equivalent to the formula incl. shared subformulas; naive and switching conversions proved meaning-preserving AND total for every formula (C11_naive_total, C11_switching_total, C11_sort_total) after two repairs of /repo (94d9e8e, 9837dd8) that the former refuted-totality witnesses exposed.",
            "Coq kernel; extraction; str()-key of the cache modelled by a structural key (injective image); CPython list.sort comparison order modelled", "DESIGN.md §4 C11"),
    "C12": ("Coq proof (gate lemmas, ripple-carry and saturating pop-count invariants) + literal correspondence + exhaustive small-width search",
            "Six theorems: every builder is a definitional block whose outputs carry the binary sum (documented saturation of the top bit) for all widths.",
            "Coq kernel; extraction; tie by literal clause lists of every builder", "DESIGN.md §4 C12"),
    "C13": ("Coq proof (rank/unrank inverse pairs, refinement of the explicit-stack/memo machine to the clean recursion) + exhaustive and random correspondence + brute-force search",
            "27 theorems: each unranking function is a bijection from [0,N) onto its arrangements with N the counting function, for all parameters; the explicit-stack/memo implementation, the memoised counter, both dispatchers and any session on a shared memo table refine the clean recursion AND are total (C13_*_total: the model's fuel always suffices, by an amortised potential over the memo table).",
            "Coq kernel; extraction; the model's fuel replaces the real `while ks:` loop (same step bound)", "DESIGN.md §4 C13"),
    "C20": ("Coq proof (transposition lemmas by list induction) + correspondence on synthesized and arbitrary experiments + cell-by-cell search",
            "Conversions reproduce every cell for exactly the user-declared factor names; hidden factors never exposed.",
            "Coq kernel; extraction; CSV/print layout parsed back by the harness", "DESIGN.md §4 C20"),
    "C21": ("Coq proof (counting lemmas) + parsed-stdout correspondence + independent recount",
            "Tabulation model equals the reference table; frequencies are exact counts, percentages 100 f/n as rationals, totals sum to the selection size.",
            "Coq kernel; extraction; printed float accepted within the two-rounding bound of the exact rational", "DESIGN.md §4 C21"),
    "C22": ("Coq proof (safety of the resample loop and window semantics for arbitrary distribution functions) + recorded data-flow correspondence + recomputation search",
            "Any returned experiment has one value per trial, satisfies every ContinuousConstraint, and each value is the function of the documented same-trial inputs/window; discrete columns untouched. Liveness of the resample loop is out of scope (partial).",
            "Coq kernel; extraction; distributions are integer-valued and recording in the harness; liveness not covered", "DESIGN.md §4 C22"),
    "C27": ("Coq proof (token-level print/parse round trips, blocking clause) + token correspondence on real files + independent re-parse search",
            "Parsers recover exactly the printed clauses and sampling set (guard: no empty clause), header declares the highest variable, solver output round-trips, the blocking clause excludes exactly the previous support assignment.",
            "Coq kernel; extraction; character-level formatting (str(int), whitespace) trusted; files written under a temporary directory", "DESIGN.md §4 C27"),
    "C28": ("Coq proof (pseudo-Boolean evaluator equivalences, link to C10) + token correspondence + all-assignment search",
            "OPB clause lines, EQ/LT/GT request lines and the blocking line mean exactly what the SAT encoding means.",
            "Coq kernel; extraction; Gurobi absent - the property is about the text", "DESIGN.md §4 C28"),
}
if os.path.exists(os.path.join(V, "claimed_extra.json")):
    CLAIMED.update({k: tuple(v) for k, v in json.load(open(os.path.join(V, "claimed_extra.json"))).items()})

NOT_YET = "no check registered yet in this snapshot: model, correspondence and theorems are under construction (see DESIGN.md section 6); the technique applies"

checks = []
for pid in sorted(CLAIMED):
    tech, text, note, ref = CLAIMED[pid]
    checks.append({
        "property_id": pid,
        "quick_cmd": "./check %s --tier quick" % pid,
        "thorough_cmd": "./check %s --tier thorough" % pid,
        "evidence_file": "/verif/evidence/%s.json" % pid,
        "replay_cmd_template": "./check %s --replay {path}" % pid,
        "engine": "coq-proof+correspondence",
        "level_claimed": {"category": "proof", "text": text, "design_ref": ref},
        "level_note": note,
        "technique": tech,
    })
manifest = {
    "version": 1,
    "setup_cmd": "cd /verif && ./check --setup",
    "hooks": {"guard": "SWEETPEA_VERIF", "enable": "no hooks are needed: every observation point is importable; checks run /repo's working tree with PYTHONPATH=/repo",
              "baseline_off_cmd": "cd /repo && /venv/bin/python -m pytest -ra -q -p no:cacheprovider --timeout=900 --continue-on-collection-errors",
              "source_commits": [], "add_only": True},
    "engines": [{"name": "coq-proof+correspondence", "path": "/verif/check", "serves_properties": sorted(CLAIMED),
                 "kind_free_text": "Coq 8.16 theorems about hand-written Gallina models; models extracted to OCaml and compared with the real code on every run; failing-input search against an independent reference semantics"}],
    "checks": checks,
    "notes": "See DESIGN.md. known_findings.json lists open findings (reported as KNOWN-FINDING) and fixed ones (suppress nothing).",
    "not_applicable": [{"property_id": pid, "reason": NOT_YET} for pid in sorted(props) if pid not in CLAIMED],
}
json.dump(manifest, open(os.path.join(V, "MANIFEST.json"), "w"), indent=1)
print("claimed", len(checks), "not claimed", len(manifest["not_applicable"]))
